#!/bin/sh
# builds every engine for the current tree of /repo into /verif/build/<hash>/ (offline, from files on disk)
cd "$(dirname "$0")" || exit 2
exec python3 driver/build.py
