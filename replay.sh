#!/bin/sh
# replay.sh <ID> <replay file>: re-run one saved case against the current tree
cd "$(dirname "$0")" || exit 2
exec python3 driver/replay.py "$@"
