#!/usr/bin/env python3
import os, sys
HERE = os.path.dirname(os.path.abspath(__file__))
sys.path.insert(0, HERE)
import build as builder
import check
from props import PROPS
pid, path = sys.argv[1], sys.argv[2]
spec = dict(PROPS[pid]); spec["id"] = pid
bdir = builder.build([spec["engine"]])
if bdir is None:
    sys.exit(2)
k, sig, msg = check.run_replay(os.path.join(bdir, spec["engine"]), spec, os.path.abspath(path), "quick")
print(k.upper(), sig, msg.split("\n")[0] if k != "crash" else msg)
sys.exit(0 if k == "pass" else 1)
