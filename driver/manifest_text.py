"""Texts of MANIFEST.json (kept apart from the plan table in props.py)."""

HOOKS = dict(
    guard="OPENFEC_VERIF",
    enable="no source hooks are needed: the checks compile /repo/src in place (gcc/clang, AddressSanitizer + UBSan, -DOPENFEC_LITTLE_ENDIAN) together with /verif/harness/shim.c and optional white-box probe TUs; the guard name is reserved and unused",
    baseline_off_cmd="cmake -G Ninja -S /repo -B /repo/_build && cmake --build /repo/_build && ctest --test-dir /repo/_build -j8 --timeout 900",
    source_commits=[],
    add_only=True,
)

_ENUM_NOTE = " In addition every received subset of several dozen small codes is enumerated completely (both APIs, with/without finish), symbol lengths are swept (quick: multiples of 512 +-1 and protocol sizes; thorough: every length 1..65536), rare heavy scenarios are generated (deep staircase unroll over ~12000 symbols, very high rate codes with k >= 256, neighbour sessions, nested calls from callbacks), and the thorough tier adds a coverage-guided libFuzzer phase on the same interpreter."

ENGINES = [
    dict(name="hist_fuzz", path="/verif/harness/hist/hist_fuzz.cpp", serves_properties=["C01", "C03", "C04", "C06", "C07", "C08", "C10", "C11"],
         kind_free_text="libFuzzer (clang, ASan+UBSan) on the same structure-aware decoder and interpreter; thorough tier only"),
    dict(name="kern_enum", path="/verif/harness/props/kern_enum.cpp", serves_properties=["C13", "C14"],
         kind_free_text="complete grid enumerator for the symbol kernels and the field tables against byte-wise / shift-and-reduce references"),
    dict(name="prng_enum", path="/verif/harness/props/prng_enum.cpp", serves_properties=["C19"], kind_free_text="complete enumeration of the 2^31-2 PRNG states against integer Park-Miller"),
    dict(name="blk_enum", path="/verif/harness/props/blk_enum.cpp", serves_properties=["C20"], kind_free_text="complete small range + seeded structured sampling of the blocking structure against integer RFC 5052"),
    dict(name="mat_rc", path="/verif/harness/props/mat_rc.cpp", serves_properties=["C17", "C18"], kind_free_text="rapidcheck-driven stateful model-based sequences over sparse/dense GF(2) matrices, solver differential, popcount enumeration"),
    dict(name="hist_rc", path="/verif/harness/hist/hist_rc.cpp",
         serves_properties=["C01", "C02", "C03", "C04", "C05", "C06", "C07", "C08", "C09", "C10", "C11", "C12", "C15", "C16"],
         kind_free_text="rapidcheck-generated (and enumerated) API call histories executed against the real library through a C shim; in-interpreter oracles from independent references (RFC 5170 construction, Vandermonde RS generator, GF(2) determinability, peeling closure, allocation accounting via sanitizer hooks); shrinking by rapidcheck + step-wise minimisation; text replay files"),
]

NOTES = ("Technique family: property-based testing and fuzzing. Every check rebuilds the library from /repo's working tree "
         "(hash-keyed cache under /verif/build), replays committed findings, fans out 16 seeded workers, triages failures "
         "(3x replay in fresh processes, sanitizer-stop attribution rule of DESIGN 2.6) and writes evidence/<id>.json. "
         "VERIF_SEED selects the pseudo-random stream (default 1).")

_H = "generated-input search (rapidcheck) against an independent oracle; finds counterexamples, never proves absence; counts, classes and samples are in the evidence"

TEXT = {
    "C01": dict(level="exploration: thousands of generated decoder histories per run (all four codecs, both submission APIs, duplicates, orders, callbacks, finish or not); every source symbol handed back is compared byte for byte with the reference encoder's block (not the library's encoder), and completion implies all k available",
                design_ref="DESIGN.md section 6 C01", note="trusted: reference RS generator and RFC 5170 transcription in harness/ref; linearity argument for 'all data' rests on C13/C14", technique="property-based testing (rapidcheck) with reference-encoder round-trip oracle"),
    "C02": dict(level="exploration: generated RS decoder histories (GF(2^8) legacy, GF(2^m) m=4,8): completion must flip exactly at the k-th distinct symbol on the streaming path, after finish on the batch path, never below k; data compared with the reference Vandermonde code",
                design_ref="DESIGN.md section 6 C02", note="trusted: harness/ref/rs_ref.hpp (shift-and-reduce field, Gauss-Jordan inverse)", technique="property-based testing (rapidcheck) + complete enumeration of small codes against a reference MDS code"),
    "C03": dict(level="exploration: generated LDPC histories ending in of_finish_decoding; completion afterwards must equal exact GF(2) determinability of all sources from the received set on the reference RFC 5170 matrix (both directions)",
                design_ref="DESIGN.md section 6 C03", note="trusted: rfc5170_ref.hpp, gf2.hpp", technique="property-based testing (rapidcheck) with exact GF(2) rank/determinability oracle"),
    "C04": dict(level="exploration: generated decode_with_new_symbol sequences with a query after every call; available sources must equal the source part of the peeling closure computed as a set fixed point on the reference matrix, at every prefix",
                design_ref="DESIGN.md section 6 C04", note="trusted: rfc5170_ref.hpp; zero-symbol injection for sessions reporting IS_LAST_SYMBOL_NULL is part of the model", technique="property-based testing (rapidcheck), model-based prefix invariant (peeling closure)"),
    "C06": dict(level="exploration: generated encoder histories; each repair symbol is compared with the canonical codeword from the references, sources and table entries must be untouched, NULL slots must receive a library allocation",
                design_ref="DESIGN.md section 6 C06", note="trusted: harness/ref", technique="property-based testing (rapidcheck), differential against reference encoders"),
    "C07": dict(level="exploration: generated encoder/decoder histories under AddressSanitizer with exact-size application buffers at generated alignments, canaries and content snapshots after every API call",
                design_ref="DESIGN.md section 6 C07", note="AddressSanitizer/UBSan runtime; uninitialised reads not observed", technique="property-based testing under AddressSanitizer with snapshot/canary oracle"),
    "C08": dict(level="exploration: generated histories released at generated points; allocations made inside library calls are tracked through the sanitizer's malloc/free hooks and must all be gone after release, minus what the API gives to the application",
                design_ref="DESIGN.md section 6 C08", note="sanitizer malloc/free hooks; ownership rules taken from of_openfec_api.h", technique="property-based testing with allocation-accounting oracle (sanitizer hooks)"),
    "C10": dict(level="exploration: generated decoder histories with queries after every step; status values, completion monotonicity, completion<=>all available, and pointer identity for symbols submitted while unknown are asserted after every call",
                design_ref="DESIGN.md section 6 C10", note="'known to the session' is modelled with the peeling closure (LDPC) / distinct count (RS)", technique="property-based testing (rapidcheck), stateful invariants after every step"),
    "C11": dict(level="exploration: generated decoder histories with a source callback returning a buffer, NULL or a mix; the callback log is compared with the table after every query (exactly once per decoded symbol, size, ESI, buffer identity, none for received symbols)",
                design_ref="DESIGN.md section 6 C11", note="library-allocated buffers identified through the sanitizer hooks", technique="property-based testing (rapidcheck) with callback-log oracle"),
    "C05": dict(level="exploration: generated (k, r, N1, seed) after a generated history of other sessions; three observations of the code actually used (black-box encoder on an identity payload, the session's own parity-check matrix, the exported constructor) are compared entry by entry with an independent RFC 5170 transcription",
                design_ref="DESIGN.md section 6 C05", note="trusted: rfc5170_ref.hpp (transcription of the RFC pseudo-code, exact integer Park-Miller)", technique="property-based testing (rapidcheck), differential against an independent RFC 5170 implementation, history-prefix metamorphic relation"),
    "C09": dict(level="exploration: boundary-grid and random configurations for all three codecs; acceptance must coincide with the advertised limits, accepted feasible configurations run a full encode/decode cycle under the C01/C02/C06/C10 oracles, and single-argument corruptions must be refused without disturbing the session",
                design_ref="DESIGN.md section 6 C09", note="allocation-failure behaviour not judged; one open finding (RS-2^m n > 2^m-1) is excluded by construction and counted", technique="property-based testing (rapidcheck) over a boundary-value grid with validity oracle and follow-up round-trip"),
    "C12": dict(level="exploration: generated sets of 2-4 sessions with generated interleavings; each session's observation trace must equal the trace of the same script run alone in a pristine forked process",
                design_ref="DESIGN.md section 6 C12", note="fork-based zygote gives pristine static state; same thread only", technique="property-based testing (rapidcheck), differential/metamorphic: interleaved run vs solo run in a pristine process"),
    "C15": dict(level="exploration: generated LDPC configurations biased to even N1; whenever the flag is true the reference matrix must have even source-column weights, the encoder's last repair symbol must be all zero for generated payloads, encoder and decoder must agree, and decoding without symbol n-1 must return correct data",
                design_ref="DESIGN.md section 6 C15", note="trusted: rfc5170_ref.hpp; linearity for 'every source block'", technique="property-based testing (rapidcheck) with reference-matrix parity oracle"),
    "C13": dict(level="exploration, exhaustive over the structural space: every size 0..40 (80 thorough) x alignment x operand count 0..20 / every field constant for the seven kernels, each tuple run in an exact-size heap block under AddressSanitizer and in a padded block with guard bytes; contents are sampled",
                design_ref="DESIGN.md section 6 C13", note="byte-wise reference from harness/ref/gf.hpp; contents sampled; build configuration of the tree (Release, little-endian, no SSE)", technique="exhaustive grid enumeration with seeded contents against a byte-wise reference, under AddressSanitizer"),
    "C14": dict(level="exploration, exhaustive: every entry of every field table of both RS codecs compared with shift-and-reduce arithmetic in the two fields",
                design_ref="DESIGN.md section 6 C14", note="tables reached through probe TUs that include the repository's headers/source; reference field arithmetic in harness/ref/gf.hpp", technique="exhaustive enumeration of a finite table space against reference field arithmetic"),
    "C19": dict(level="exploration, exhaustive over states: all 2^31-2 generator states (one full cycle) are visited in both tiers; the maxv axis is complete for a set of states in the thorough tier; seeding boundary values and the published check value",
                design_ref="DESIGN.md section 6 C19", note="64-bit integer Park-Miller and the RFC expression evaluated in the harness; 128-bit exact floor where s'*maxv < 2^53", technique="exhaustive state enumeration against exact integer arithmetic"),
    "C20": dict(level="exploration: complete for T, B up to 1536 (4096 thorough) plus seeded boundary-biased sampling of the full 32-bit range, against RFC 5052 in 64-bit integer arithmetic",
                design_ref="DESIGN.md section 6 C20", note="blocking_struct.c compiled by TU inclusion (printf compiled out)", technique="exhaustive small-range enumeration plus seeded random sampling against integer RFC 5052 arithmetic"),
    "C16": dict(level="exploration, exhaustive over the small code family: every (k, r) in 0..17 x 0..12 is offered; for each accepted pair the code is read off the encoder and must be a d x l product code, the encoder must satisfy every check on generated payloads, and the decoder is run on every one of the 2^n received subsets for n <= 13 (quick) / n <= 20 (thorough) and on 5000 / 400000 seeded patterns of each larger code through both APIs with finish, plus orders and release points, against exact GF(2) determinability",
                design_ref="DESIGN.md section 6 C16", note="oracle equations are the ones observed from the library's own encoder after passing the structure predicate; allocation accounting via sanitizer hooks", technique="exhaustive pattern enumeration (history interpreter) with structure predicate and GF(2) determinability oracle"),
    "C17": dict(level="exploration: generated operation sequences over a pool of sparse matrices with a set-of-pairs model; every live matrix is fully traversed (rows, columns, links, find) after every operation; freed memory via AddressSanitizer, completeness of free via allocation hooks",
                design_ref="DESIGN.md section 6 C17", note="in-range arguments only; _opt copies and copy_filled_matrix into fresh destinations", technique="stateful model-based property testing (rapidcheck choice stream, set model)"),
    "C18": dict(level="exploration: generated operation sequences over dense matrices with a bit-matrix model compared cell by cell after every operation; solver on constructed systems of known rank with symbol right-hand sides; popcount helpers over all 16-bit patterns in every position",
                design_ref="DESIGN.md section 6 C18", note="solver called with non-NULL right-hand sides and a caller-built control block; rank decided by the harness's own elimination", technique="stateful model-based property testing (rapidcheck) plus differential solver test against own GF(2) elimination"),
}

for _p in ("C01", "C02", "C03", "C04", "C06", "C07", "C08", "C10", "C11"):
    TEXT[_p]["level"] += _ENUM_NOTE
TEXT["C03"]["level"] += " The thorough tier also sweeps every repair count n-k in 3..49999 with a cheap pattern that needs the ML pass."
TEXT["C12"]["level"] += " Interleaved and solo executions both run in forked pristine processes; siblings differing in one parameter (seed, m, k with equal k*L, n with equal k, L+1), noisy neighbours with thousands of duplicate submissions, 2D-parity neighbours, chatty (verbosity 2) neighbours and nested steps from inside callbacks are generated."

