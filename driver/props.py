"""Per-property plan: engine, phases per tier (budgets are case counts and generated sizes, never
per-case time limits; the phase timeout only marks a run inconclusive)."""

RFC_ASSUME = "rfc5170_ref.hpp is a transcription of RFC 5170 section 5.2/5.7 written from the RFC text as known to the author (no network to diff against); pinned by the Park-Miller check value 1043618065; k=1 skips the RFC's non-terminating second extra-entry loop"
LIN_ASSUME = "data-obliviousness: encoders/decoders are linear maps composed of the symbol kernels checked by C13/C14; identity payloads expose the exact map, random payloads are run in addition"
PROTO_ASSUME = "only protocol-conforming histories are generated (DESIGN section 4): one direction per session, nothing submitted after of_finish_decoding, either decode_with_new_symbol* or one set_available_symbols"


def hist(cases_q, size_q, cases_t, size_t, small_enum=False, fuzz=0, **kw):
    q = [dict(mode="random", cases=cases_q, size=size_q, timeout=900)]
    t = [dict(mode="random", cases=cases_t, size=size_t, timeout=3000)]
    if small_enum:   # scenario phase (rare scenario classes forced a fixed number of times) and, for the single-session checks, complete enumeration of small codes (every received subset x API x finish) and axis sweeps
        q.append(dict(mode="enum", timeout=900))
        t.append(dict(mode="enum", timeout=3000))
    if fuzz:         # coverage-guided phase (libFuzzer on the same structure-aware decoder), thorough tier only
        t.append(dict(mode="fuzz", engine="hist_fuzz", cases=fuzz, timeout=3000))
    d = dict(engine="hist_rc", nosan=True, phases=dict(quick=q, thorough=t))
    if fuzz:
        d["more_engines"] = dict(thorough=["hist_fuzz"])
    d.update(kw)
    return d


def enum(engine, **kw):
    d = dict(engine=engine, nosan=False,
             phases=dict(quick=[dict(mode="enum", timeout=900)], thorough=[dict(mode="enum", timeout=3000)]))
    d.update(kw)
    return d


PROPS = {
    "C13": dict(engine="kern_enum", nosan=False, memory=True, more_engines=dict(thorough=["kern_enum_dbg"]),
                phases=dict(quick=[dict(mode="enum", timeout=900)],
                            thorough=[dict(mode="enum", timeout=3000), dict(mode="enum", engine="kern_enum_dbg", informational=True, timeout=3000)]), assumptions=["contents are sampled (seeded random, all-ones, single-bit); content dependence of the GF kernels is table lookup, checked entry by entry by C14", "Release configuration (OF_DEBUG off), little-endian x86-64, ASSEMBLY_SSE_OPT off: the configuration the tree builds"]),
    "C16": dict(engine="hist_rc", nosan=False, memory=True,
                phases=dict(quick=[dict(mode="enum", timeout=900)], thorough=[dict(mode="enum", timeout=3400)]),
                assumptions=["the code is read off the library's own encoder (identity payload, each repair built alone) and must satisfy the product-structure predicate; the decoder oracle (GF(2) determinability) uses those observed equations", PROTO_ASSUME]),
    "C17": dict(engine="mat_rc", nosan=False, memory=True,
                phases=dict(quick=[dict(mode="random", cases=1500, size=300, timeout=900)], thorough=[dict(mode="random", cases=30000, size=500, timeout=3000)]),
                assumptions=["arguments are always in range and dimension preconditions hold by construction (the property excludes out-of-range arguments)", "copyrows_opt / copycols_opt / copy_filled_matrix insert into their destination; destinations are fresh so that 'copy' and 'merge' readings agree"]),
    "C18": dict(engine="mat_rc", nosan=False, memory=True,
                phases=dict(quick=[dict(mode="random", cases=2000, size=300, timeout=900)], thorough=[dict(mode="random", cases=40000, size=500, timeout=3000)]),
                assumptions=["of_hweight_array / row_weight_ignore_first are called where whole-word and exact-bit readings agree (padding bits zero, nb_ignore multiple of 32)", "copycols destinations have the source's row count", "the solver is called with non-NULL right-hand sides and a caller-built control block as the ML decoder builds it"]),
    "C19": enum("prng_enum", assumptions=["the state variable is reached through an optional probe (extern of_seed); without it states are set through of_rfc5170_srand"]),
    "C20": enum("blk_enum", assumptions=["blocking_struct.c is compiled by translation-unit inclusion with its unconditional printf compiled out"]),
    "C14": enum("kern_enum", assumptions=["tables are observed through optional probe translation units (harness/probe_gf.c, probe_rs8.c) that include the repository's own headers / source file"]),
    "C01": hist(2500, 200, 8000, 400, small_enum=True, fuzz=30000, assumptions=[RFC_ASSUME, LIN_ASSUME, PROTO_ASSUME]),
    "C02": hist(1500, 200, 8000, 400, small_enum=True, assumptions=[LIN_ASSUME, PROTO_ASSUME]),
    "C03": hist(2000, 200, 8000, 400, small_enum=True, fuzz=30000, assumptions=[RFC_ASSUME, LIN_ASSUME, PROTO_ASSUME]),
    "C04": hist(2000, 200, 8000, 400, small_enum=True, fuzz=30000, assumptions=[RFC_ASSUME, PROTO_ASSUME]),
    "C06": hist(1500, 200, 8000, 400, small_enum=True, fuzz=30000, assumptions=[RFC_ASSUME, LIN_ASSUME]),
    "C07": hist(2000, 200, 8000, 400, small_enum=True, fuzz=30000, memory=True, assumptions=[PROTO_ASSUME, "uninitialised reads are not observed (no MSan runtime for libstdc++ here)"]),
    "C08": hist(2500, 200, 8000, 400, small_enum=True, fuzz=30000, memory=True, assumptions=[PROTO_ASSUME, "the application fetches the source table before release and frees decoded source symbols, callback buffers and NULL-slot repair symbols, as the API documents"]),
    "C05": hist(300, 200, 700, 400, small_enum=True, assumptions=[RFC_ASSUME, "session-matrix and constructor observations use an optional white-box probe (harness/probe_ldpc.c); without it only the black-box encoder observation remains"]),
    "C09": hist(1000, 200, 12000, 300, assumptions=[PROTO_ASSUME, "behaviour under allocation failure is not judged: 2^32-1 byte symbols are only offered to sessions that allocate nothing of that size at configuration time", "MAX_K/MAX_N for LDPC taken as 50000 (OF_CTRL_GET_MAX_K/N answers are compared with it)"]),
    "C12": hist(500, 200, 4000, 300, small_enum=True, assumptions=[PROTO_ASSUME, "same thread only, as the property states; pointer values and library stdout are excluded from the traces"]),
    "C15": hist(600, 200, 1200, 400, small_enum=True, assumptions=[RFC_ASSUME, LIN_ASSUME]),
    "C10": hist(2500, 200, 8000, 400, small_enum=True, fuzz=30000, assumptions=[RFC_ASSUME, PROTO_ASSUME]),
    "C11": hist(2500, 200, 8000, 400, small_enum=True, fuzz=30000, assumptions=[PROTO_ASSUME, "callback order within one API call is unspecified and not compared"]),
}
