#!/usr/bin/env python3
"""Build cache: compiles the library from $REPO/src in place, and the harness engines, into
/verif/build/<hash>/ where <hash> covers every input. Concurrent checks serialise on a lock."""
import fcntl
import hashlib
import os
import subprocess
import sys
import shutil
from concurrent.futures import ThreadPoolExecutor

VERIF = os.path.dirname(os.path.dirname(os.path.abspath(__file__)))
REPO = os.environ.get("REPO", "/repo")
HARNESS = os.path.join(VERIF, "harness")
BUILD_ROOT = os.environ.get("VERIF_BUILD", os.path.join(VERIF, "build"))

DEFAULT_CONFIG = """#ifndef OF_BUILD_CONFIG_H
#define OF_BUILD_CONFIG_H
#define OF_USE_ENCODER
#define OF_USE_DECODER
#define OF_USE_REED_SOLOMON_CODEC
#define OF_USE_REED_SOLOMON_2_M_CODEC
#define OF_USE_LDPC_STAIRCASE_CODEC
#define OF_USE_2D_PARITY_MATRIX_CODEC
#define OF_USE_LINEAR_BINARY_CODES_UTILS
#define OF_USE_GALOIS_FIELD_CODES_UTILS
#define ML_DECODING
#endif
"""

UBSAN = ["-fsanitize=undefined", "-fno-sanitize=alignment,shift-base,pointer-overflow", "-fno-sanitize-recover=undefined"]
VARIANTS = {
    # name: (cc, cxx, cflags, ldflags)
    "asan": ("gcc", "g++", ["-g", "-O1", "-fno-omit-frame-pointer", "-fsanitize=address"] + UBSAN, ["-fsanitize=address", "-fsanitize=undefined"]),
    "nosan": ("gcc", "g++", ["-g", "-O1", "-DVERIF_NOSAN"], []),
    "fuzz": ("clang", "clang++", ["-g", "-O1", "-fno-omit-frame-pointer", "-fsanitize=fuzzer-no-link,address"] + UBSAN, ["-fsanitize=fuzzer,address,undefined"]),
    "dbg": ("gcc", "g++", ["-g", "-O1", "-fno-omit-frame-pointer", "-fsanitize=address", "-DOF_DEBUG"] + UBSAN, ["-fsanitize=address", "-fsanitize=undefined"]),
}
LIBDEFS = ["-DOPENFEC_LITTLE_ENDIAN", "-fPIC", "-Wno-unused-result", "-w"]

# engine binaries: name -> (variant, [harness sources], [extra link flags], optional)
ENGINES = {
    "hist_rc": ("asan", ["hist/hist_rc.cpp"], ["-lrapidcheck"]),
    "hist_rc_nosan": ("nosan", ["hist/hist_rc.cpp"], ["-lrapidcheck"]),
    "hist_fuzz": ("fuzz", ["hist/hist_fuzz.cpp"], []),
    "kern_enum": ("asan", ["props/kern_enum.cpp"], []),
    "kern_enum_dbg": ("dbg", ["props/kern_enum.cpp"], []),
    "prng_enum": ("nosan", ["props/prng_enum.cpp"], []),
    "blk_enum": ("nosan", ["props/blk_enum.cpp"], []),
    "mat_rc": ("asan", ["props/mat_rc.cpp"], ["-lrapidcheck"]),
    "mat_fuzz": ("fuzz", ["props/mat_fuzz.cpp"], []),
}
# C glue compiled per variant: (source, optional probe?)
GLUE = [("shim.c", False), ("probe_ldpc.c", True), ("probe_kern.c", True), ("probe_rs8.c", True), ("probe_gf.c", True),
        ("probe_mat.c", True), ("probe_rand.c", True), ("probe_blk.c", True)]


def lib_sources():
    out = []
    for root, _dirs, files in os.walk(os.path.join(REPO, "src")):
        for f in sorted(files):
            if f.endswith(".c"):
                out.append(os.path.join(root, f))
    return sorted(out)


def input_hash():
    h = hashlib.sha256()
    paths = []
    for root, _dirs, files in os.walk(os.path.join(REPO, "src")):
        for f in files:
            if f.endswith((".c", ".h", ".in")):
                paths.append(os.path.join(root, f))
    for f in ("blocking_struct.c", "blocking_struct.h"):
        p = os.path.join(REPO, "applis", "eperftool", f)
        if os.path.exists(p):
            paths.append(p)
    for root, _dirs, files in os.walk(HARNESS):
        for f in files:
            if f.endswith((".c", ".h", ".cpp", ".hpp")):
                paths.append(os.path.join(root, f))
    paths.append(os.path.abspath(__file__))
    for p in sorted(paths):
        h.update(p.encode())
        with open(p, "rb") as fh:
            h.update(fh.read())
    return h.hexdigest()[:16]


def run(cmd, log):
    r = subprocess.run(cmd, stdout=subprocess.PIPE, stderr=subprocess.STDOUT)
    if r.returncode != 0:
        log.append("$ " + " ".join(cmd) + "\n" + r.stdout.decode(errors="replace"))
    return r.returncode == 0


def build(want_engines=None, quiet=True):
    os.makedirs(BUILD_ROOT, exist_ok=True)
    hid = input_hash()
    bdir = os.path.join(BUILD_ROOT, hid)
    lock = open(os.path.join(BUILD_ROOT, ".lock"), "w")
    fcntl.flock(lock, fcntl.LOCK_EX)
    try:
        os.makedirs(bdir, exist_ok=True)
        engines = want_engines or list(ENGINES)
        engines = [e for e in engines if all(os.path.exists(os.path.join(HARNESS, s)) for s in ENGINES[e][1])]
        missing = [e for e in engines if not os.path.exists(os.path.join(bdir, e))]
        if not missing:
            return bdir
        # keep the cache small: remove other hashes (disk is limited)
        for d in os.listdir(BUILD_ROOT):
            p = os.path.join(BUILD_ROOT, d)
            if d != hid and d != "run" and os.path.isdir(p):   # "run" holds the working files of checks in progress
                shutil.rmtree(p, ignore_errors=True)
        log = []
        incs = ["-I" + os.path.join(REPO, "src"), "-I" + HARNESS, "-I" + os.path.join(REPO, "src", "lib_common")]
        cfg_h = os.path.join(REPO, "src", "lib_common", "of_build_config.h")
        if not os.path.exists(cfg_h):
            # cmake generates this git-ignored header from of_build_config.h.in; the sources include it by
            # relative path, so it has to sit there. A tree that was never configured gets cmake's default.
            with open(cfg_h, "w") as fh:
                fh.write(DEFAULT_CONFIG)
        variants = sorted(set(ENGINES[e][0] for e in missing))
        srcs = lib_sources()
        jobs = []
        status = {}
        with ThreadPoolExecutor(max_workers=16) as ex:
            for v in variants:
                cc, cxx, cflags, _ = VARIANTS[v]
                odir = os.path.join(bdir, "obj_" + v)
                os.makedirs(odir, exist_ok=True)
                for i, s in enumerate(srcs):
                    o = os.path.join(odir, "lib%03d_%s.o" % (i, os.path.basename(s)[:-2]))
                    if os.path.exists(o):
                        continue
                    jobs.append((("lib", v, s), ex.submit(run, [cc] + cflags + LIBDEFS + incs + ["-c", s, "-o", o], log)))
                for g, optional in GLUE:
                    gp = os.path.join(HARNESS, g)
                    if not os.path.exists(gp):
                        continue
                    o = os.path.join(odir, "glue_" + g[:-2] + ".o")
                    jobs.append((("glue", v, g, optional, o), ex.submit(run, [cc] + cflags + LIBDEFS + incs + ["-c", gp, "-o", o], [] if optional else log)))
            for key, fut in jobs:
                status[key] = fut.result()
        unavailable = []
        for key, ok in status.items():
            if key[0] == "lib" and not ok:
                sys.stderr.write("BUILD FAILED (library source does not compile):\n" + "\n".join(log)[-2500:] + "\n")
                return None
            if key[0] == "glue" and not ok:
                _, v, g, optional, o = key
                if not optional:
                    sys.stderr.write("BUILD FAILED (shim):\n" + "\n".join(log)[-2500:] + "\n")
                    return None
                cc, cxx, cflags, _ = VARIANTS[v]
                if not run([cc] + cflags + LIBDEFS + incs + ["-DPROBE_STUB", "-c", os.path.join(HARNESS, g), "-o", o], log):
                    sys.stderr.write("BUILD FAILED (probe stub):\n" + "\n".join(log)[-2500:] + "\n")
                    return None
                unavailable.append(v + ":" + g)
        # probe objects may contain private copies of library translation units: keep only shp_* global
        for key, ok in status.items():
            if key[0] == "glue" and key[3]:
                run(["objcopy", "-w", "-G", "shp_*", key[4]], log)
        with open(os.path.join(bdir, "unavailable_probes.txt"), "w") as fh:
            fh.write("\n".join(sorted(unavailable)))
        # link engines
        ljobs = []
        with ThreadPoolExecutor(max_workers=16) as ex:
            for e in missing:
                v, hs, extra = ENGINES[e]
                cc, cxx, cflags, ldflags = VARIANTS[v]
                odir = os.path.join(bdir, "obj_" + v)
                objs = sorted(os.path.join(odir, f) for f in os.listdir(odir) if f.endswith(".o"))
                cmd = [cxx, "-std=gnu++17"] + cflags + ["-I" + HARNESS, "-I" + os.path.join(HARNESS, "ref")] + \
                      [os.path.join(HARNESS, s) for s in hs] + objs + ldflags + extra + ["-lm", "-o", os.path.join(bdir, e + ".tmp")]
                ljobs.append((e, ex.submit(run, cmd, log)))
            for e, fut in ljobs:
                if fut.result():
                    os.rename(os.path.join(bdir, e + ".tmp"), os.path.join(bdir, e))
                else:
                    sys.stderr.write("BUILD FAILED (engine %s):\n" % e + "\n".join(log)[-2500:] + "\n")
                    return None
        return bdir
    finally:
        fcntl.flock(lock, fcntl.LOCK_UN)
        lock.close()


if __name__ == "__main__":
    want = sys.argv[1:] or None
    d = build(want)
    if d is None:
        sys.exit(2)
    print(d)
