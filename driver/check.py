#!/usr/bin/env python3
"""check.py <ID> <quick|thorough>: build for the current tree, replay known findings, fan out
workers, triage failures, write evidence/<ID>.json, print verdict lines, exit 0/1."""
import hashlib
import json
import os
import re
import shutil
import signal
import struct
import subprocess
import sys
import time

HERE = os.path.dirname(os.path.abspath(__file__))
VERIF = os.path.dirname(HERE)
sys.path.insert(0, HERE)
import build as builder  # noqa: E402
from props import PROPS  # noqa: E402

NW = int(os.environ.get("VERIF_WORKERS", "16"))
# scratch runs against mutated trees (REPO=...) keep their evidence and replays out of /verif's own
EVIDENCE = os.environ.get("VERIF_EVIDENCE", os.path.join(VERIF, "evidence"))
REPLAYS = os.environ.get("VERIF_REPLAYS", os.path.join(VERIF, "replays"))
ASAN_OPTS = "detect_leaks=0:allocator_may_return_null=1:abort_on_error=0:handle_abort=1:print_summary=1:max_malloc_fill_size=4096:malloc_fill_byte=190"
UBSAN_OPTS = "print_stacktrace=1:halt_on_error=1"


def mix(*parts):
    h = hashlib.sha256(("/".join(str(p) for p in parts)).encode()).digest()
    return struct.unpack("<Q", h[:8])[0] >> 1 or 1


def big_stack():
    # the iterative decoder recurses once per rebuilt symbol (thousands deep on large blocks) and sanitizer
    # builds have larger frames: a stack overflow caused by the instrumentation would be a false alarm
    import resource
    try:
        resource.setrlimit(resource.RLIMIT_STACK, (512 << 20, 512 << 20))
    except (ValueError, OSError):
        pass


REUSE_MARK = "# allocator=reuse"
REUSE_OPTS = ":quarantine_size_mb=0:thread_local_quarantine_size_kb=0"


def env_for(rc_params=None, reuse=False):
    """reuse: freed blocks are handed out again at once, as a production allocator does (ASan's quarantine keeps
    addresses unique for a long time, which hides state keyed on an address); used by every other worker of the
    random phases of the non-memory properties, and by the replay of a case such a worker found."""
    e = dict(os.environ)
    e["ASAN_OPTIONS"] = ASAN_OPTS + (REUSE_OPTS if reuse else "")
    e["UBSAN_OPTIONS"] = UBSAN_OPTS
    if rc_params:
        e["RC_PARAMS"] = rc_params
    return e


class Known:
    """KNOWN_FINDINGS.txt: lines
       open: property=<id> sig=<signature> replay=<relative path> <what fails>
       fixed: property=<id> <commit> sig=<signature> replay=<relative path> <what failed>"""

    def __init__(self, path):
        self.open, self.fixed = [], []
        if not os.path.exists(path):
            return
        for line in open(path):
            line = line.strip()
            if not line or line.startswith("#"):
                continue
            m = re.match(r"(open|fixed):\s+property=(\S+)\s+(.*)$", line)
            if not m:
                continue
            kind, pid, rest = m.groups()
            sig = re.search(r"sig=(\S+)", rest)
            rp = re.search(r"replay=(\S+)", rest)
            ent = dict(property=pid, sig=sig.group(1) if sig else "", replay=rp.group(1) if rp else "", text=rest)
            (self.open if kind == "open" else self.fixed).append(ent)


def run_replay(binpath, spec, path, tier, timeout=300):
    cmd = [binpath, "--prop", spec["id"], "--tier", tier, "--replay", path] + spec.get("extra_args", [])
    try:
        with open(path, errors="replace") as fh:
            reuse = REUSE_MARK in fh.read(4096)
    except OSError:
        reuse = False
    try:
        r = subprocess.run(cmd, stdout=subprocess.PIPE, stderr=subprocess.PIPE, env=env_for(reuse=reuse), timeout=timeout, preexec_fn=big_stack)
    except subprocess.TimeoutExpired:
        return "timeout", "", ""
    out = r.stdout.decode(errors="replace")
    err = r.stderr.decode(errors="replace")
    m = re.search(r"REPLAY-FAIL (\S+) :: (.*)", out)
    if m:
        return "fail", m.group(1), m.group(2)
    if "REPLAY-PASS" in out and r.returncode == 0:
        return "pass", "", ""
    if "REPLAY-ERROR" in out:
        return "error", "", out
    if r.returncode == 97 or "CASE-HARNESS-BUDGET" in err:
        return "budget", "", "the case exceeds the harness's own CPU budget (inconclusive)"
    if r.returncode == 98 or "CASE-CPU-LIMIT" in err:
        return "crash", "hang/no_result_within_cpu_limit", "the case burns its whole CPU budget (60 s quick / 240 s thorough, process CPU time) without returning"
    # process death
    what = "signal %d" % (-r.returncode) if r.returncode < 0 else "exit %d" % r.returncode
    san = ""
    m = re.search(r"(ERROR: AddressSanitizer: [^\n]*|runtime error: [^\n]*|ERROR: LeakSanitizer[^\n]*)", err)
    if m:
        san = m.group(1)
    frames = re.findall(r"#\d+ 0x[0-9a-f]+ in (\S+) (/repo\S+|\S*src/\S+)", err)
    where = ""
    for fn, loc in frames:
        if "/harness/" not in loc:
            where = fn
            break
    kind = what.replace(" ", "_")
    if san:
        m2 = re.search(r"AddressSanitizer: (\S+)", san)
        if m2:
            kind = m2.group(1)
        else:
            kind = re.sub(r"0x[0-9a-f]+", "", san.split(":")[-1].strip())
            kind = re.sub(r"[^A-Za-z0-9_-]+", "_", kind)[:60]
    return "crash", "crash/" + kind + ("@" + where if where else ""), (san or what) + "\n" + err[-3000:]


def ddmin_text(binpath, spec, text, tier, want_kind, want_sig_prefix, budget=120, time_budget=240):
    """greedy removal of ' step' lines while the same kind of failure remains"""
    lines = text.split("\n")
    idx = [i for i, l in enumerate(lines) if (l.startswith(" step") or l.startswith("op ")) and "setparams" not in l]
    tmp = os.path.join(builder.BUILD_ROOT, "run", "ddmin-%d.replay" % os.getpid())
    os.makedirs(os.path.dirname(tmp), exist_ok=True)

    def bad(ls):
        with open(tmp, "w") as fh:
            fh.write("\n".join(ls))
        k, sig, _ = run_replay(binpath, spec, tmp, tier, timeout=120)
        return k == want_kind and sig.startswith(want_sig_prefix)

    chunk = max(1, len(idx) // 2)
    t_end = time.time() + time_budget     # minimisation is a convenience: bounded by count and by wall clock
    while chunk >= 1 and budget > 0 and time.time() < t_end:
        i = 0
        while i < len(idx) and budget > 0 and time.time() < t_end:
            drop = set(idx[i:i + chunk])
            cand = [l for j, l in enumerate(lines) if j not in drop]
            budget -= 1
            if bad(cand):
                lines = cand
                idx = [j for j, l in enumerate(lines) if (l.startswith(" step") or l.startswith("op ")) and "setparams" not in l]
            else:
                i += chunk
        if chunk == 1:
            break
        chunk //= 2
    try:
        os.remove(tmp)
    except OSError:
        pass
    return "\n".join(lines)


def main():
    if len(sys.argv) < 3:
        print("usage: check.py <ID> <quick|thorough>")
        return 2
    pid, tier = sys.argv[1], sys.argv[2]
    if pid not in PROPS:
        print("unknown property", pid)
        return 2
    spec = dict(PROPS[pid])
    spec["id"] = pid
    seed = int(os.environ.get("VERIF_SEED", "1") or "1")
    t0 = time.time()
    engines = sorted(set([spec["engine"]] + ([spec["engine"] + "_nosan"] if spec.get("nosan") else []) + spec.get("more_engines", {}).get(tier, [])))
    bdir = builder.build(engines)
    if bdir is None:
        print("BUILD-FAILED: the current tree does not compile with the harness; no verdict")
        return 2
    unavailable = open(os.path.join(bdir, "unavailable_probes.txt")).read().split()
    binpath = os.path.join(bdir, spec["engine"])
    rundir = os.path.join(builder.BUILD_ROOT, "run", "%s-%s-%d" % (pid, tier, os.getpid()))
    shutil.rmtree(rundir, ignore_errors=True)
    os.makedirs(rundir)
    os.makedirs(REPLAYS, exist_ok=True)
    os.makedirs(EVIDENCE, exist_ok=True)

    known = Known(os.path.join(VERIF, "KNOWN_FINDINGS.txt"))
    violations = []   # (sig, msg, replay path)
    known_lines = []
    notes = []

    # 1. committed findings of this property
    for ent in known.fixed:
        if ent["property"] != pid or not ent["replay"]:
            continue
        p = os.path.join(VERIF, ent["replay"])
        if not os.path.exists(p):
            continue
        k, sig, msg = run_replay(binpath, spec, p, tier)
        if k in ("fail", "crash"):
            if k == "crash" and not spec.get("memory") and spec.get("nosan"):
                k2, sig2, msg2 = run_replay(os.path.join(bdir, spec["engine"] + "_nosan"), spec, p, tier)
                if k2 == "pass":
                    notes.append("fixed finding %s: sanitizer stop only (left to C07): %s" % (ent["replay"], sig))
                    continue
            violations.append((sig, "regression of a fixed finding (%s): %s" % (ent["text"][:80], msg.split("\n")[0]), p))
    open_sigs = {}
    for ent in known.open:
        if ent["property"] != pid:
            continue
        open_sigs[ent["sig"]] = ent
        p = os.path.join(VERIF, ent["replay"]) if ent["replay"] else ""
        if p and os.path.exists(p):
            k, sig, msg = run_replay(binpath, spec, p, tier)
            if k in ("fail", "crash"):
                known_lines.append("KNOWN-FINDING: property=%s %s" % (pid, ent["text"]))
            else:
                notes.append("open finding no longer reproduces: %s" % ent["text"])
        else:
            known_lines.append("KNOWN-FINDING: property=%s %s" % (pid, ent["text"]))

    # 2. generated search (open findings are excluded by construction inside the engine and counted)
    if open_sigs:
        spec["extra_args"] = spec.get("extra_args", []) + ["--known", ",".join(sorted(open_sigs))]
    phases = spec["phases"][tier]
    merged = dict(evaluations=0, nontrivial=0, api_calls=0, skipped_steps=0, leak_overflow=0, classes={}, features={}, counters={},
                  foreign_oracle_notes={}, samples=[], note_samples=[], subspaces=[], rule="", phases=[])
    hashes = set()
    exhaustive_all = True
    any_exhaustive = False
    sanitizer_stops = 0
    truncated = False
    reuse_workers = set()
    for ph_i, ph in enumerate(phases):
        mode = ph["mode"]
        nw = ph.get("workers", NW)
        procs = []
        for w in range(nw):
            sw = mix(seed, pid, tier, ph_i, w)
            out = os.path.join(rundir, "p%d-w%d.json" % (ph_i, w))
            fo = os.path.join(rundir, "p%d-w%d.replay" % (ph_i, w))
            cur = os.path.join(rundir, "p%d-w%d.cur" % (ph_i, w))
            eng = os.path.join(bdir, ph.get("engine", spec["engine"]))
            rc = "seed=%d max_success=%d max_size=%d max_discard_ratio=100" % (sw, ph.get("cases", 100), ph.get("size", 100))
            reuse = (not spec.get("memory")) and mode == "random" and w % 2 == 1
            e = env_for(rc, reuse)
            if mode == "fuzz":
                # coverage-guided phase: fresh corpus seeded with a few pseudo-random byte strings
                corpus = os.path.join(rundir, "corpus-p%d-w%d" % (ph_i, w))
                os.makedirs(corpus)
                import random
                rnd = random.Random(sw)
                for ci in range(8):
                    with open(os.path.join(corpus, "seed%d" % ci), "wb") as cf:
                        cf.write(bytes(rnd.getrandbits(8) for _ in range(rnd.choice([16, 64, 200, 600]))))
                e.update(VERIF_FUZZ_PROP=pid, VERIF_FUZZ_TIER=tier, VERIF_FUZZ_OUT=out, VERIF_FUZZ_FAILOUT=fo, VERIF_FUZZ_CUR=cur,
                         VERIF_FUZZ_KNOWN=",".join(sorted(open_sigs)))
                e["ASAN_OPTIONS"] = ASAN_OPTS + ":detect_leaks=0"
                cmd = [eng, "-seed=%d" % (sw % (2 ** 31 - 1) + 1), "-runs=%d" % ph.get("cases", 100000), "-max_len=%d" % ph.get("max_len", 2048),
                       "-detect_leaks=0", "-print_final_stats=0", "-verbosity=0", "-artifact_prefix=" + os.path.join(rundir, "art-p%d-w%d-" % (ph_i, w)), corpus]
            else:
                cmd = [eng, "--prop", pid, "--tier", tier, "--mode", mode, "--seed", str(sw), "--worker", str(w), "--nworkers", str(nw),
                       "--out", out, "--fail-out", fo, "--cur", cur, "--cases", str(ph.get("cases", 0))] + spec.get("extra_args", []) + ph.get("args", [])
            errf = open(os.path.join(rundir, "p%d-w%d.err" % (ph_i, w)), "w")
            p = subprocess.Popen(cmd, stdout=subprocess.PIPE, stderr=errf, env=e, preexec_fn=big_stack)
            procs.append((w, p, out, fo, cur, errf))
            if reuse:
                reuse_workers.add((ph_i, w))
        deadline = time.time() + ph.get("timeout", 3600)
        for (w, p, out, fo, cur, errf) in procs:
            try:
                so, _ = p.communicate(timeout=max(1, deadline - time.time()))
            except subprocess.TimeoutExpired:
                p.kill()
                p.communicate()
                truncated = True
                notes.append("phase %d worker %d stopped at the wall-clock budget (inconclusive, not a violation)" % (ph_i, w))
                continue
            finally:
                errf.close()
            st = None
            if mode == "fuzz" and p.returncode not in (0, 77):
                try:
                    os.remove(out)   # periodic snapshot only: the process died
                except OSError:
                    pass
            if os.path.exists(out):
                try:
                    st = json.load(open(out))
                except Exception:
                    st = None
            if st is not None:
                for key in ("evaluations", "nontrivial", "api_calls", "skipped_steps", "leak_overflow"):
                    merged[key] += st.get(key, 0)
                for key in ("classes", "features", "counters", "foreign_oracle_notes"):
                    for a, b in st.get(key, {}).items():
                        merged[key][a] = merged[key].get(a, 0) + b
                if len(merged["samples"]) < 8:
                    merged["samples"] += st.get("samples", [])[:2]
                if len(merged["note_samples"]) < 6:
                    merged["note_samples"] += st.get("note_samples", [])[:2]
                for s in st.get("subspaces", []):
                    if s not in merged["subspaces"]:
                        merged["subspaces"].append(s)
                merged["rule"] = st.get("rule", merged["rule"])
                if st.get("exhaustive"):
                    any_exhaustive = True
                else:
                    exhaustive_all = False
                for key, val in st.items():
                    if key.startswith("x_"):
                        merged.setdefault(key, val)
                hp = out + ".hashes"
                if os.path.exists(hp):
                    data = open(hp, "rb").read()
                    for i in range(0, len(data) - 7, 8):
                        hashes.add(data[i:i + 8])
                if st.get("failed") and ph.get("informational"):
                    # e.g. the -DOF_DEBUG build variant: the suite and the properties are about the Release
                    # configuration, so what this phase finds is recorded, not reported
                    notes.append("informational phase %d (%s): %s :: %s" % (ph_i, ph.get("engine", ""), st.get("signature", ""), st.get("message", "")[:200]))
                elif st.get("failed"):
                    if (ph_i, w) in reuse_workers and os.path.exists(fo):
                        mark_reuse(fo)
                    handle_failure(spec, binpath, bdir, tier, st.get("signature", ""), st.get("message", ""), fo, open_sigs, violations, known_lines, notes)
            else:
                # process death without a report: the current-case file holds the history that killed it
                errtxt = open(os.path.join(rundir, "p%d-w%d.err" % (ph_i, w))).read()
                if ph.get("informational"):
                    notes.append("informational phase %d (%s): worker %d died: %s" % (ph_i, ph.get("engine", ""), w, errtxt[-300:]))
                elif os.path.exists(cur) and os.path.getsize(cur) > 0:
                    if (ph_i, w) in reuse_workers:
                        mark_reuse(cur)
                    r = handle_crash(spec, binpath, bdir, tier, cur, errtxt, open_sigs, violations, known_lines, notes)
                    if r == "sanitizer_stop":
                        sanitizer_stops += 1
                else:
                    notes.append("worker %d of phase %d died (exit %s) outside a case: %s" % (w, ph_i, p.returncode, errtxt[-400:]))
                    violations.append(("harness/worker_died", "worker died outside a case: " + errtxt[-300:], ""))
        merged["phases"].append(dict(mode=mode, workers=nw, cases_per_worker=ph.get("cases", 0), size=ph.get("size", 0)))

    wall = time.time() - t0
    distinct = len(hashes)
    ev = dict(property_id=pid, tier=tier, seed=seed, level="exploration",
              coverage=dict(evaluations=merged["evaluations"], distinct_nontrivial=distinct, rule=merged["rule"] or spec.get("rule", ""),
                            samples=merged["samples"][:8] or ["(no non-trivial sample recorded)"], nontrivial_total=merged["nontrivial"],
                            classes=merged["classes"], features=merged["features"], counters=merged["counters"],
                            api_calls=merged["api_calls"], skipped_precondition_steps=merged["skipped_steps"],
                            exhaustive=bool(any_exhaustive and exhaustive_all), subspaces=merged["subspaces"], phases=merged["phases"],
                            foreign_oracle_notes=merged["foreign_oracle_notes"], foreign_oracle_samples=merged["note_samples"][:6],
                            degraded=[u for u in unavailable], truncated=truncated, sanitizer_stop_left_to_C07=sanitizer_stops,
                            leak_accounting_overflow_cases=merged["leak_overflow"], notes=notes,
                            known_findings=[l for l in known_lines],
                            **{k: v for k, v in merged.items() if k.startswith("x_")}),
              assumptions=spec.get("assumptions", []), wall_s=round(wall, 2), violations=len(violations))
    with open(os.path.join(EVIDENCE, pid + ".json"), "w") as fh:
        json.dump(ev, fh, indent=1, sort_keys=True)
    shutil.rmtree(rundir, ignore_errors=True)
    for l in known_lines:
        print(l)
    seen = set()
    for sig, msg, rp in violations:
        if (sig, rp) in seen:
            continue
        seen.add((sig, rp))
        print("VIOLATION property=%s replay=%s" % (pid, rp))
        print("  signature: %s" % sig)
        print("  %s" % msg.split("\n")[0][:300])
    print("%s %s: %d cases, %d distinct non-trivial, %d violation(s), %.1fs" % (pid, tier, merged["evaluations"], distinct, len(seen), wall))
    return 1 if violations else 0


def save_replay(pid, text):
    h = hashlib.sha256(text.encode()).hexdigest()[:12]
    p = os.path.join(REPLAYS, "%s-%s.replay" % (pid, h))
    with open(p, "w") as fh:
        fh.write(text)
    return p


def mark_reuse(path):
    txt = open(path).read()
    if REUSE_MARK not in txt[:4096]:
        with open(path, "w") as fh:
            fh.write(REUSE_MARK + "  (found by a worker whose allocator hands freed blocks out again at once; the replay does the same)\n" + txt)


def handle_failure(spec, binpath, bdir, tier, sig, msg, fo, open_sigs, violations, known_lines, notes):
    pid = spec["id"]
    if not os.path.exists(fo):
        violations.append((sig, msg + " (no replay file written)", ""))
        return
    text = open(fo).read()
    # replay 3x in fresh processes before believing it
    ok = 0
    last = ("", "", "")
    for _ in range(3):
        last = run_replay(binpath, spec, fo, tier)
        if last[0] in ("fail", "crash"):
            ok += 1
    if ok < 3 and os.path.exists(fo + ".orig"):
        # the engine minimises in-process; if static library state left by earlier candidates took part, the minimised
        # history is not the failing one any more. Fall back to the history as it was found, minimise it here in fresh processes.
        orig = fo + ".orig"
        res = [run_replay(binpath, spec, orig, tier) for _ in range(3)]
        if all(r[0] in ("fail", "crash") for r in res):
            ok = 3
            last = res[0]
            text = open(orig).read()
            if last[0] == "fail":
                text = ddmin_text(binpath, spec, text, tier, "fail", last[1], budget=60, time_budget=180)
            notes.append("failure %s: the in-process minimised history did not replay; reported with the history as found, minimised in fresh processes" % sig)
            sig = last[1] or sig
    if ok < 3:
        notes.append("failure %s did not replay 3/3 times (%d/3): not reported" % (sig, ok))
        return
    if sig in open_sigs:
        line = "KNOWN-FINDING: property=%s %s" % (pid, open_sigs[sig]["text"])
        if line not in known_lines:
            known_lines.append(line)
        return
    violations.append((sig, msg, save_replay(pid, text)))


def handle_crash(spec, binpath, bdir, tier, cur, errtxt, open_sigs, violations, known_lines, notes):
    pid = spec["id"]
    text = open(cur).read()
    tmp = cur + ".replay"
    with open(tmp, "w") as fh:
        fh.write(text)
    res = [run_replay(binpath, spec, tmp, tier) for _ in range(3)]
    if any(r[0] == "budget" for r in res) or "CASE-HARNESS-BUDGET" in errtxt:
        notes.append("a case was abandoned at the harness's own CPU budget (ten times the per-call limit in total): inconclusive, not reported")
        return "budget"
    if not all(r[0] == "crash" for r in res):
        if all(r[0] == "fail" for r in res):
            sig, msg = res[0][1], res[0][2]
            if sig in open_sigs:
                return "known"
            violations.append((sig, msg, save_replay(pid, text)))
            return "fail"
        notes.append("a worker died but its last case does not reproduce the death (%s): not reported" % ",".join(r[0] for r in res))
        return "flaky"
    sig, msg = res[0][1], res[0][2]
    asan_sig = sig
    if not spec.get("memory"):
        nos = os.path.join(bdir, spec["engine"] + "_nosan")
        if spec.get("nosan") and os.path.exists(nos):
            k2, sig2, msg2 = run_replay(nos, spec, tmp, tier)
            if k2 == "pass":
                notes.append("sanitizer stop on a case whose promised result is still delivered without the sanitizer; left to the memory-safety checks: " + sig)
                return "sanitizer_stop"
            if k2 == "fail":
                sig, msg = sig2, msg2 + " [sanitized build stops earlier: " + res[0][1] + "]"
            elif k2 == "crash":
                sig, msg = "crash_on_valid_history/" + sig2, "the library dies on a protocol-conforming history also without sanitizer: " + msg2.split("\n")[0]
    key = sig.split("@")[0]
    for osig in open_sigs:
        if osig == sig or osig == key:
            line = "KNOWN-FINDING: property=%s %s" % (pid, open_sigs[osig]["text"])
            if line not in known_lines:
                known_lines.append(line)
            return "known"
    # a hang costs its whole CPU budget per candidate: not minimised step by step
    small = text if "hang/" in asan_sig else ddmin_text(binpath, spec, text, tier, "crash", asan_sig.split("@")[0][:24])
    header = "# property %s\n# signature %s\n# %s\n" % (pid, sig, msg.split("\n")[0][:200])
    violations.append((sig, msg, save_replay(pid, header + small)))
    return "crash"


if __name__ == "__main__":
    sys.exit(main())
