#!/usr/bin/env python3
"""Regenerates /verif/MANIFEST.json from driver/props.py and driver/manifest_text.py."""
import json
import os
import sys

HERE = os.path.dirname(os.path.abspath(__file__))
VERIF = os.path.dirname(HERE)
sys.path.insert(0, HERE)
from props import PROPS  # noqa: E402
from manifest_text import TEXT, ENGINES, NOTES, HOOKS  # noqa: E402

all_ids = [json.loads(l)["id"] for l in open(os.path.join(VERIF, "properties.jsonl"))]
checks = []
na = []
for pid in all_ids:
    if pid in PROPS and pid in TEXT:
        t = TEXT[pid]
        checks.append(dict(property_id=pid, quick_cmd="./check.sh %s quick" % pid, thorough_cmd="./check.sh %s thorough" % pid,
                           evidence_file="/verif/evidence/%s.json" % pid,
                           replay_cmd_template="./replay.sh %s {path}" % pid,
                           engine=PROPS[pid]["engine"],
                           level_claimed=dict(category="exploration", text=t["level"], design_ref=t["design_ref"]),
                           level_note=t["note"], technique=t["technique"]))
    else:
        na.append(dict(property_id=pid, reason=TEXT.get(pid, {}).get("na_reason", "check not built yet (implementation in progress); no verdict is claimed")))
m = dict(version=1, setup_cmd="./setup.sh", hooks=HOOKS, engines=ENGINES, checks=checks, notes=NOTES, not_applicable=na)
with open(os.path.join(VERIF, "MANIFEST.json"), "w") as fh:
    json.dump(m, fh, indent=1)
print("checks:", len(checks), "not_applicable:", len(na))
