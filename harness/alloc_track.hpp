// Allocation accounting through the sanitizer's malloc/free hooks. Allocations made while the
// shim's `sh_in_library` flag is set are recorded with the tag in `at_tag` (session id) and the
// index of the API call in `at_call`; frees anywhere remove them. No allocation happens inside the
// hooks (fixed open-addressing table).
#pragma once
#include <cstdint>
#include <cstddef>
#include <cstdio>
#include <cstring>
#include "shim.h"

extern "C" int __sanitizer_install_malloc_and_free_hooks(void (*malloc_hook)(const volatile void*, size_t),
                                                         void (*free_hook)(const volatile void*));

namespace at {

struct Ent { uintptr_t p; size_t size; int tag; int call; };
static const size_t CAP = 1u << 18;  // power of two
static Ent* tab = nullptr;           // allocated once with mmap-like static storage
static Ent storage[CAP];
static size_t live = 0;
static int at_tag = 0, at_call = 0;
static bool installed = false;
static uint64_t total_lib_allocs = 0;
static bool overflow = false;

static inline size_t h(uintptr_t p) { return (size_t)(((p >> 4) * 0x9E3779B97F4A7C15ULL) >> 40) & (CAP - 1); }

static void on_malloc(const volatile void* ptr, size_t size) {
  if (!sh_in_library || !ptr) return;
  if (live > CAP / 2) { overflow = true; return; }
  uintptr_t p = (uintptr_t)ptr;
  size_t i = h(p), tomb = CAP;
  while (tab[i].p != 0 && tab[i].p != p) { if (tab[i].p == 1 && tomb == CAP) tomb = i; i = (i + 1) & (CAP - 1); }
  if (tab[i].p != p) { live++; if (tomb != CAP) i = tomb; }
  tab[i].p = p; tab[i].size = size; tab[i].tag = at_tag; tab[i].call = at_call;
  total_lib_allocs++;
}
static void on_free(const volatile void* ptr) {
  if (!ptr || live == 0) return;
  uintptr_t p = (uintptr_t)ptr;
  size_t i = h(p);
  while (tab[i].p != 0) {
    if (tab[i].p == p) { tab[i].p = 1; live--; return; }  // tombstone
    i = (i + 1) & (CAP - 1);
  }
}
static inline void install() {
  if (installed) return;
  tab = storage;
  memset(tab, 0, sizeof(storage));
  int rc = __sanitizer_install_malloc_and_free_hooks(on_malloc, on_free);
  (void)rc;
  installed = true;
}
// compact tombstones when nothing is live (called between cases)
static inline void reset_if_empty() {
  if (live == 0) memset(tab, 0, sizeof(storage));
}
static inline void hard_reset() { memset(tab, 0, sizeof(storage)); live = 0; overflow = false; }
static inline const Ent* find(const void* ptr) {
  uintptr_t p = (uintptr_t)ptr;
  if (!p) return nullptr;
  size_t i = h(p);
  while (tab[i].p != 0) {
    if (tab[i].p == p) return &tab[i];
    i = (i + 1) & (CAP - 1);
  }
  return nullptr;
}
// iterate live entries with a given tag
template <class F> static inline void for_tag(int tag, F f) {
  if (live == 0) return;
  for (size_t i = 0; i < CAP; i++)
    if (tab[i].p > 1 && tab[i].tag == tag) f(tab[i]);
}
static inline size_t count_tag(int tag) { size_t c = 0; for_tag(tag, [&](const Ent&) { c++; }); return c; }

}  // namespace at
