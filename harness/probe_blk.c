#ifdef PROBE_STUB
#include "shim.h"
int shp_blk_available(void) { return 0; }
int shp_blk_compute(uint32_t B, uint32_t L, uint32_t E, uint32_t *o) { (void)B; (void)L; (void)E; (void)o; return 0; }
#else
/* eperftool's blocking structure by translation-unit inclusion; its unconditional printf is
 * compiled out (system headers first, so that only the call in blocking_struct.c is affected) */
#include <stdio.h>
#include <stdlib.h>
#include <math.h>
#include <string.h>
#include <unistd.h>
#include <fcntl.h>
#include <ctype.h>
#include <sys/types.h>
#include <sys/socket.h>
#include <netinet/in.h>
#include <arpa/inet.h>
#include <sys/time.h>
#define printf(...) ((void)0)
#include "../applis/eperftool/blocking_struct.c"
#undef printf
#include "shim.h"
int shp_blk_available(void) { return 1; }
int shp_blk_compute(uint32_t B, uint32_t L, uint32_t E, uint32_t *o)
{
	of_blocking_struct_t bs;
	memset(&bs, 0, sizeof(bs));
	of_compute_blocking_struct(B, L, E, &bs);
	o[0] = bs.I; o[1] = bs.A_large; o[2] = bs.A_small; o[3] = bs.nb_blocks;
	return 1;
}
#endif
