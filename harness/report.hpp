// Statistics, JSON evidence fragments and small file helpers shared by all engines.
#pragma once
#include <cstdint>
#include <cstdio>
#include <cstring>
#include <string>
#include <vector>
#include <map>
#include <unordered_set>
#include <unistd.h>
#include <fcntl.h>

namespace hist {

struct Stats {
  uint64_t evaluations = 0, nontrivial = 0, skipped_steps = 0, api_calls = 0, leak_overflow = 0;
  std::unordered_set<uint64_t> distinct;
  std::map<std::string, uint64_t> classes, counters, feature_counts, note_sigs;
  std::vector<std::string> samples, note_samples;
  std::string rule;
  bool exhaustive = false;
  std::vector<std::string> subspaces;
};

// ---- JSON helpers ---------------------------------------------------------------------------
inline std::string jesc(const std::string& s) {
  std::string o;
  for (char c : s) {
    if (c == '"') o += "\\\""; else if (c == '\\') o += "\\\\"; else if (c == '\n') o += "\\n"; else if (c == '\t') o += "\\t";
    else if ((unsigned char)c < 0x20) { char b[8]; snprintf(b, sizeof b, "\\u%04x", c); o += b; } else o += c;
  }
  return o;
}
inline std::string jmap(const std::map<std::string, uint64_t>& m) {
  std::string o = "{"; bool first = true;
  for (auto& kv : m) { if (!first) o += ","; first = false; o += "\"" + jesc(kv.first) + "\":" + std::to_string(kv.second); }
  return o + "}";
}
inline std::string jlist(const std::vector<std::string>& v) {
  std::string o = "["; bool first = true;
  for (auto& s : v) { if (!first) o += ","; first = false; o += "\"" + jesc(s) + "\""; }
  return o + "]";
}
inline void write_stats(const std::string& path, const std::string& prop, const Stats& st, bool failed, const std::string& sig,
                        const std::string& msg, const std::string& replay, const std::string& extra_json = "") {
  FILE* f = fopen(path.c_str(), "w");
  if (!f) return;
  fprintf(f, "{\"property\":\"%s\",\"evaluations\":%llu,\"nontrivial\":%llu,\"distinct_nontrivial\":%zu,\"api_calls\":%llu,\"skipped_steps\":%llu,\"leak_overflow\":%llu,",
          prop.c_str(), (unsigned long long)st.evaluations, (unsigned long long)st.nontrivial, st.distinct.size(),
          (unsigned long long)st.api_calls, (unsigned long long)st.skipped_steps, (unsigned long long)st.leak_overflow);
  fprintf(f, "\"classes\":%s,\"features\":%s,\"counters\":%s,\"foreign_oracle_notes\":%s,\"note_samples\":%s,\"samples\":%s,",
          jmap(st.classes).c_str(), jmap(st.feature_counts).c_str(), jmap(st.counters).c_str(), jmap(st.note_sigs).c_str(),
          jlist(st.note_samples).c_str(), jlist(st.samples).c_str());
  fprintf(f, "\"rule\":\"%s\",\"exhaustive\":%s,\"subspaces\":%s,", jesc(st.rule).c_str(), st.exhaustive ? "true" : "false", jlist(st.subspaces).c_str());
  if (!extra_json.empty()) fprintf(f, "%s,", extra_json.c_str());
  fprintf(f, "\"failed\":%s,\"signature\":\"%s\",\"message\":\"%s\",\"replay\":\"%s\"}\n", failed ? "true" : "false", jesc(sig).c_str(),
          jesc(msg).c_str(), jesc(replay).c_str());
  fclose(f);
  // distinct hashes for the union in the driver
  std::string hp = path + ".hashes";
  FILE* g = fopen(hp.c_str(), "wb");
  if (g) { for (uint64_t h : st.distinct) fwrite(&h, sizeof h, 1, g); fclose(g); }
}

inline bool read_file(const std::string& path, std::string& out) {
  FILE* f = fopen(path.c_str(), "rb");
  if (!f) return false;
  char buf[65536]; size_t n; out.clear();
  while ((n = fread(buf, 1, sizeof buf, f)) > 0) out.append(buf, n);
  fclose(f);
  return true;
}
inline void write_file(const std::string& path, const std::string& s) {
  FILE* f = fopen(path.c_str(), "w");
  if (f) { fwrite(s.data(), 1, s.size(), f); fclose(f); }
}

// "current case" file, rewritten before every execution so that a process death leaves the
// history that killed it
struct CurCase {
  int fd = -1;
  void open(const std::string& path) { fd = ::open(path.c_str(), O_CREAT | O_TRUNC | O_WRONLY, 0644); }
  void put(const std::string& s) {
    if (fd < 0) return;
    if (ftruncate(fd, 0) != 0) return;
    ssize_t w = pwrite(fd, s.data(), s.size(), 0); (void)w;
  }
  void clear() { if (fd >= 0) { int r = ftruncate(fd, 0); (void)r; } }
};


}  // namespace hist
