// E4: complete grids for the symbol kernels (C13) and the field tables (C14).
// Reference: byte-wise definition with harness/ref/gf.hpp. No rapidcheck: the spaces are
// enumerated completely (sizes x counts x alignments x constants); contents are seeded.
#include "../report.hpp"
#include "../shim.h"
#include "../ref/gf.hpp"
#include "../hist/history.hpp"
#include <cstdlib>
#include <functional>

using namespace hist;

static std::string arg(int argc, char** argv, const char* name, const char* def = "") {
  for (int i = 1; i + 1 < argc; i++) if (!strcmp(argv[i], name)) return argv[i + 1];
  return def;
}

static FILE* rep;
static Stats st;
static CurCase cur;
static bool failed = false; static std::string fsig, fmsg, freplay;

static void fail(const std::string& sig, const std::string& msg, const std::string& replay) {
  if (failed) return;
  failed = true; fsig = sig; fmsg = msg; freplay = replay;
}

// ---------------------------------------------------------------------------------------------
// C13
enum Kern { K_ADD = 0, K_FROM_MULTI, K_TO_MULTI, K_RS8_ADDMUL, K_GF28_ADDMUL, K_GF24_ADDMUL, K_GF24_COMPACT, K_COUNT };
static const char* const kern_names[] = {"add_to_symbol", "add_from_multiple_symbols", "add_to_multiple_symbols", "rs8_addmul1",
                                         "gf28_addmul1", "gf24_addmul1", "gf24_addmul1_compact"};

static std::string g_tuple_prefix;   // kernel calls made just before the failing one (interleaving pass): part of the replay
struct Tuple { int kern; uint32_t size, cnt, a_single, c; uint64_t cseed; int content; int a_other; /* alignment of the other operand, -1 = seeded */ };
static std::string tuple_text(const Tuple& t) {
  char b[256];
  snprintf(b, sizeof b, "kern=%s size=%u count=%u align=%u c=%u content=%d cseed=%llu other=%d\n", kern_names[t.kern], t.size, t.cnt, t.a_single, t.c,
           t.content, (unsigned long long)t.cseed, t.a_other);
  return b;
}

// the kernel calls made just before the current one: a kernel's result must not depend on them, so they belong to the replay
static std::string g_recent[6]; static size_t g_recent_n = 0;
static std::string recent_text() { std::string r; size_t n = std::min<size_t>(g_recent_n, 6); for (size_t i = 0; i < n; i++) r += g_recent[(g_recent_n - n + i) % 6]; return r; }

static void fill(uint8_t* p, uint32_t n, int content, uint64_t& x, bool nibble_vals) {
  for (uint32_t i = 0; i < n; i++) {
    uint8_t v;
    switch (content) {
      case 1: v = 0xFF; break;
      case 2: v = (uint8_t)(1u << (i & 7)); break;
      case 3: v = ((i >> 4) & 1) ? (uint8_t)(splitmix(x) | 1) : 0; break;          // 16-byte chunks: zero, non-zero, zero, ...
      case 4: v = ((i >> 4) & 1) ? 0 : (uint8_t)(splitmix(x) | 1); break;          // the other phase
      case 5: v = (i >= 8 && i < 24) || (splitmix(x) % 4 == 0) ? 0 : (uint8_t)splitmix(x); break;  // sparse, zero run across a chunk border
      case 6: v = (i % 24 < 17) ? 0 : (uint8_t)(splitmix(x) | 1); break;           // zero runs of 17 bytes at drifting offsets
      default: v = (uint8_t)splitmix(x);
    }
    p[i] = nibble_vals ? (v & 15) : v;
  }
}

// One buffer: `pad` guard bytes on both sides (padded mode) or an exact-size heap block whose end
// coincides with the end of the data (exact mode: one byte past the end is an ASan redzone).
struct Blk {
  uint8_t* base = nullptr; uint32_t off = 0, size = 0, pad_after = 0;
  uint8_t* p() const { return base + off; }
  void alloc(uint32_t sz, uint32_t align, bool exact) {
    size = sz; off = exact ? align : 32 + align; pad_after = exact ? 0 : 32;
    base = (uint8_t*)malloc((size_t)off + sz + pad_after + (off + sz + pad_after == 0 ? 1 : 0));
    memset(base, 0xA5, (size_t)off + sz + pad_after);
  }
  bool guards_ok() const {
    for (uint32_t i = 0; i < off; i++) if (base[i] != 0xA5) return false;
    for (uint32_t i = 0; i < pad_after; i++) if (base[off + size + i] != 0xA5) return false;
    return true;
  }
  void release() { free(base); base = nullptr; }
};

// runs one tuple in both memory modes; returns false on violation
static bool run_tuple(const Tuple& t) {
  const ref::GF& f8 = ref::gf8(); const ref::GF& f4 = ref::gf4();
  for (int exact = 0; exact <= 1; exact++) {
    uint64_t x = t.cseed;
    bool multi = (t.kern == K_FROM_MULTI || t.kern == K_TO_MULTI);
    uint32_t nm = multi ? t.cnt : 1;
    bool nib = (t.kern == K_GF24_ADDMUL);
    Blk single; single.alloc(t.size, t.a_single, exact);
    std::vector<Blk> many(nm);
    for (uint32_t i = 0; i < nm; i++) { uint32_t al = (uint32_t)(splitmix(x) & 7); many[i].alloc(t.size, (t.a_other >= 0 && i == 0) ? (uint32_t)t.a_other : al, exact); }
    fill(single.p(), t.size, t.content, x, nib);
    for (uint32_t i = 0; i < nm; i++) fill(many[i].p(), t.size, t.content == 2 ? 0 : t.content, x, nib);
    std::vector<uint8_t> s0(single.p(), single.p() + t.size);
    std::vector<std::vector<uint8_t>> m0(nm);
    for (uint32_t i = 0; i < nm; i++) m0[i].assign(many[i].p(), many[i].p() + t.size);
    // expected
    std::vector<uint8_t> es = s0; std::vector<std::vector<uint8_t>> em = m0;
    std::vector<void*> ptrs(nm ? nm : 1);
    for (uint32_t i = 0; i < nm; i++) ptrs[i] = many[i].p();
    switch (t.kern) {
      case K_ADD:  // single ^= many[0]
        for (uint32_t b = 0; b < t.size; b++) es[b] ^= m0[0][b];
        shp_add_to_symbol(single.p(), many[0].p(), t.size); break;
      case K_FROM_MULTI:
        for (uint32_t i = 0; i < nm; i++) for (uint32_t b = 0; b < t.size; b++) es[b] ^= m0[i][b];
        shp_add_from_multiple(single.p(), (const void**)ptrs.data(), nm, t.size); break;
      case K_TO_MULTI:
        for (uint32_t i = 0; i < nm; i++) for (uint32_t b = 0; b < t.size; b++) em[i][b] ^= s0[b];
        shp_add_to_multiple(ptrs.data(), single.p(), nm, t.size); break;
      case K_RS8_ADDMUL: case K_GF28_ADDMUL:
        for (uint32_t b = 0; b < t.size; b++) es[b] ^= f8.mul(t.c, m0[0][b]);
        if (t.kern == K_RS8_ADDMUL) shp_rs8_addmul1(single.p(), many[0].p(), (uint8_t)t.c, (int)t.size);
        else shp_gf28_addmul1(single.p(), many[0].p(), (uint8_t)t.c, (int)t.size);
        break;
      case K_GF24_ADDMUL:
        for (uint32_t b = 0; b < t.size; b++) es[b] ^= f4.mul(t.c, m0[0][b]);
        shp_gf24_addmul1(single.p(), many[0].p(), (uint8_t)t.c, (int)t.size); break;
      case K_GF24_COMPACT:
        for (uint32_t b = 0; b < t.size; b++) es[b] ^= (uint8_t)((f4.mul(t.c, m0[0][b] >> 4) << 4) | f4.mul(t.c, m0[0][b] & 15));
        shp_gf24_addmul1_compact(single.p(), many[0].p(), (uint8_t)t.c, (int)t.size); break;
    }
    bool ok = true; std::string why;
    if (t.size && memcmp(single.p(), es.data(), t.size) != 0) { ok = false; why = t.kern == K_TO_MULTI ? "source_operand_modified" : "wrong_result"; }
    for (uint32_t i = 0; ok && i < nm; i++)
      if (t.size && memcmp(many[i].p(), em[i].data(), t.size) != 0) { ok = false; why = t.kern == K_TO_MULTI ? "wrong_result" : "source_operand_modified"; }
    if (ok && !single.guards_ok()) { ok = false; why = "write_outside_size"; }
    for (uint32_t i = 0; ok && i < nm; i++) if (!many[i].guards_ok()) { ok = false; why = "write_outside_size"; }
    single.release(); for (auto& b : many) b.release();
    if (!ok) {
      fail(std::string("C13/KERNEL/") + kern_names[t.kern] + "/" + why,
           std::string(kern_names[t.kern]) + ": " + why + " for size=" + std::to_string(t.size) + " count=" + std::to_string(t.cnt) + " align=" + std::to_string(t.a_single) + " c=" + std::to_string(t.c),
           "# property C13\n" + (g_tuple_prefix.empty() ? recent_text() : g_tuple_prefix) + tuple_text(t));
      return false;
    }
  }
  g_recent[g_recent_n++ % 6] = tuple_text(t);
  return true;
}

static bool kern_available(int k) {
  if (k == K_RS8_ADDMUL) return shp_rs8_available();
  return shp_kern_available();
}

static bool g_thorough = false;
// all tuples of one (kernel, size, alignment-of-single-operand) group
// bigpass: 0 = complete small grid, 1 = sampled large sizes, 2 = length sweep (every size up to a bound, few counts/constants)
template <class F> static void for_group(int k, uint32_t s, uint32_t a, int bigpass, bool thorough, F visit) {
  Tuple t{}; t.kern = k; t.size = s; t.a_single = a; t.a_other = -1;
  if (bigpass == 2) {
    uint64_t x = mix2(0x5eed5eedULL + (uint64_t)k, s);
    if (k == K_ADD) { t.cnt = 1; visit(t); }
    else if (k == K_FROM_MULTI || k == K_TO_MULTI) { const uint32_t cs[5] = {2, 9, 10, 33, 3 + (uint32_t)(splitmix(x) % 38)}; for (uint32_t c : cs) { t.cnt = c; visit(t); } }
    else { uint32_t nc = (k == K_GF24_ADDMUL || k == K_GF24_COMPACT) ? 16 : 256; t.cnt = 1; t.c = 2 + (uint32_t)(splitmix(x) % (nc - 2)); visit(t); }
    return;
  }
  if (k == K_ADD) { t.cnt = 1; for (int ao = 0; ao < 8; ao++) { t.a_other = ao; visit(t); } }
  else if (k == K_FROM_MULTI || k == K_TO_MULTI) { for (uint32_t c = 0; c <= (bigpass ? 9u : 20u); c++) { t.cnt = c; visit(t); } }
  else {
    uint32_t nc = (k == K_GF24_ADDMUL || k == K_GF24_COMPACT) ? 16 : 256;
    for (uint32_t c = 0; c < nc; c++) {
      if (bigpass && c > 3 && c != nc - 1) continue;
      t.cnt = 1; t.c = c;
      bool all_other = !bigpass && (thorough || c < 3 || c == 0x1d || c == 0x80 || c == nc - 1);
      if (!all_other) { t.a_other = -1; visit(t); } else for (int ao = 0; ao < 8; ao++) { t.a_other = ao; visit(t); }
    }
  }
}

static void run_group(int k, uint32_t s, uint32_t a, int bigpass, bool thorough, uint64_t seed, bool count_stats) {
  auto nontriv = [](const Tuple& t) {
    bool gfk = t.kern >= K_RS8_ADDMUL;
    return (t.size % (gfk ? 16 : 8)) != 0 || ((t.kern == K_FROM_MULTI || t.kern == K_TO_MULTI) && t.cnt != 1) || t.a_single != 0 || t.a_other > 0 || (gfk && t.c > 1);
  };
  uint64_t idx = 0;
  for_group(k, s, a, bigpass, thorough, [&](Tuple t) {
    if (failed) return;
    idx++;
    for (int content = 0; content < 7 && !failed; content++) {
      if (bigpass == 2 && content != 0 && !(content == 3 && s % 7 == 0)) continue;
      if (!thorough && content == 2) continue;
      if (!thorough && content == 1 && t.kern >= K_RS8_ADDMUL && t.c >= 4) continue;
      // sparse contents (zero runs / zero chunks): a kernel may special-case zero input
      if (content >= 3 && (t.size < 24 || (!thorough && t.kern >= K_RS8_ADDMUL && t.c >= 3 && t.c != 0x80 && (t.c & 15) != 15) || (t.a_other > 0 && !thorough))) continue;
      t.content = content;
      t.cseed = mix2(mix2(seed, ((uint64_t)k << 40) | ((uint64_t)s << 8) | a), idx * 4 + content);
      if (count_stats) {
        st.evaluations++;
        st.classes[kern_names[t.kern]]++;
        if (nontriv(t)) {
          st.nontrivial++;
          uint64_t h = mix2(mix2(((uint64_t)t.kern << 32) | t.size, ((uint64_t)t.cnt << 32) | t.c), ((uint64_t)t.a_single << 16) | ((uint64_t)(t.a_other + 1) << 8) | (uint64_t)t.content);
          st.distinct.insert(h);
          if (st.samples.size() < 6 && st.distinct.size() % 9973 == 1) st.samples.push_back(tuple_text(t));
        }
      }
      run_tuple(t);
    }
  });
}

static void run_c13(bool thorough, int worker, int nworkers, uint64_t seed) {
  uint32_t maxsize = thorough ? 80 : 40;
  uint32_t sweep_xor = thorough ? 70000 : 12000, sweep_gf = thorough ? 20000 : 4500;
  st.subspaces.push_back("length sweep: every size " + std::to_string(maxsize + 1) + ".." + std::to_string(sweep_xor) + " for the XOR kernels (operand counts 2, 9, 10, 33 and one seeded in 3..40) and .." + std::to_string(sweep_gf) + " for the multiply-accumulate kernels (one seeded constant); alignment and contents seeded");
  st.rule = "complete grid: every size 0.." + std::to_string(maxsize) + " x every alignment 0..7 of the single operand x (operand count 0..20 for the multiple-symbol kernels | every field constant for the multiply-accumulate kernels" + std::string(thorough ? " x every alignment of the other operand" : "; alignment of the other operand complete for XOR and for 6 constants, seeded otherwise") + "), each in an exact-size heap block (ASan redzone right after the last byte) and in a padded block whose guards must stay intact; contents seeded-random, all-ones, sparse with zero runs and zero 16-byte chunks" + std::string(thorough ? " and single-bit" : "") + "; plus sampled sizes 255, 256, 257, 1024, 1500, 65535; non-trivial = size not a multiple of the unroll width (8 for XOR, 16 for GF), or count != 1, or unaligned operand, or constant not in {0,1}; distinct = distinct (kernel, size, count, constant, alignments, content) tuple";
  st.exhaustive = true;
  st.subspaces.push_back("(size 0.." + std::to_string(maxsize) + ") x (alignment 0..7 of the single operand) x (count 0..20 | constant 0..255 / 0..15) enumerated completely for 7 kernels; contents sampled");
  st.classes["length_sweep_sizes_xor"] = sweep_xor - maxsize; st.classes["length_sweep_sizes_gf"] = sweep_gf - maxsize;
  uint64_t gidx = 0;
  std::vector<uint32_t> big = {255, 256, 257, 1024, 1500, 65535};
  for (int k = 0; k < K_COUNT && !failed; k++) {
    if (!kern_available(k)) { st.counters[std::string("unavailable:") + kern_names[k]]++; continue; }
    for (int pass = 0; pass < 2; pass++)
      for (uint32_t si = 0; si < (pass ? (uint32_t)big.size() : maxsize + 1) && !failed; si++)
        for (uint32_t a = 0; a < 8 && !failed; a++) {
          if (pass && a > 1 && a != 7) continue;
          if ((gidx++ % (uint64_t)nworkers) != (uint64_t)worker) continue;
          uint32_t s = pass ? big[si] : si;
          char b[128]; snprintf(b, sizeof b, "group kern=%s size=%u align=%u big=%d thorough=%d seed=%llu\n", kern_names[k], s, a, pass, thorough ? 1 : 0, (unsigned long long)seed);
          cur.put(b);
          run_group(k, s, a, pass, thorough, seed, true);
        }
    // length sweep: every size above the grid up to a bound (a kernel may switch strategy at any internal threshold)
    bool xork = (k == K_ADD || k == K_FROM_MULTI || k == K_TO_MULTI);
    uint32_t top = xork ? sweep_xor : sweep_gf;
    for (uint32_t s = maxsize + 1; s <= top && !failed; s++) {
      if ((gidx++ % (uint64_t)nworkers) != (uint64_t)worker) continue;
      uint32_t a = (uint32_t)(mix2(seed, ((uint64_t)k << 32) | s) & 7);
      char b[128]; snprintf(b, sizeof b, "group kern=%s size=%u align=%u big=2 thorough=%d seed=%llu\n", kern_names[k], s, a, thorough ? 1 : 0, (unsigned long long)seed);
      cur.put(b);
      run_group(k, s, a, 2, thorough, seed, true);
    }
  }
  // interleavings: a kernel's result may depend on nothing but its arguments, whatever kernel ran just before. Every ordered
  // pair of multiply-accumulate kernels, the same constant passed to both (K1, K2, K1 again), a few sizes on both sides of
  // plausible vector thresholds; then pairs with an XOR kernel in between.
  {
    static const uint32_t isz[] = {15, 16, 17, 63, 64, 65, 100, 255, 256, 1024, 1500};
    static const int gk[4] = {K_RS8_ADDMUL, K_GF28_ADDMUL, K_GF24_ADDMUL, K_GF24_COMPACT};
    uint64_t cases = 0;
    for (uint32_t s1 : isz) for (int i1 = 0; i1 < 4; i1++) for (int i2 = 0; i2 < 4 && !failed; i2++) {
      if (i1 == i2 || !kern_available(gk[i1]) || !kern_available(gk[i2])) continue;
      bool small_field = gk[i1] >= K_GF24_ADDMUL || gk[i2] >= K_GF24_ADDMUL;
      for (uint32_t c = 0; c < (small_field ? 16u : 256u) && !failed; c++) {
        if ((gidx++ % (uint64_t)nworkers) != (uint64_t)worker) continue;
        uint32_t s2 = (c % 3 == 0) ? s1 : isz[(c + s1) % (sizeof isz / sizeof isz[0])];
        Tuple t{}; t.cnt = 1; t.c = c; t.a_single = c & 7; t.a_other = -1; t.content = 0;
        g_tuple_prefix.clear();
        for (int step = 0; step < 3 && !failed; step++) {
          t.kern = step == 1 ? gk[i2] : gk[i1]; t.size = step == 1 ? s2 : s1;
          t.cseed = mix2(mix2(seed, ((uint64_t)i1 << 40) | ((uint64_t)i2 << 32) | s1), (uint64_t)c * 4 + step);
          cur.put("# property C13\n" + g_tuple_prefix + tuple_text(t));
          st.evaluations++; st.nontrivial++; st.classes["interleaved_pairs"]++;
          if (run_tuple(t)) g_tuple_prefix += tuple_text(t);
        }
        cases++;
      }
    }
    g_tuple_prefix.clear();
    st.counters["interleaving_cases"] += cases;
    st.subspaces.push_back("interleavings: every ordered pair of the four multiply-accumulate kernels x every field constant both accept x 11 sizes (K1, K2, K1 with the same constant): complete");
  }
}

// ---------------------------------------------------------------------------------------------
// C14: every entry of every table
static uint64_t get_elem(const void* p, size_t es, size_t i) {
  switch (es) { case 1: return ((const uint8_t*)p)[i]; case 2: return ((const uint16_t*)p)[i]; case 4: return ((const uint32_t*)p)[i]; default: return ((const uint64_t*)p)[i]; }
}
struct TabCheck { std::string name; std::function<bool(size_t, uint64_t&, bool&)> expect; /* index -> expected, skip */ };

static std::string g_use_prefix;   // "use flavour=F sessions=N" line of the replay when the tables are checked after use
static void check_table(const std::string& name, const void* p, size_t es, size_t cnt, size_t want_cnt,
                        std::function<bool(size_t, uint64_t&)> expect, std::function<bool(size_t)> nontrivial, long only = -1) {
  st.classes[name] += 0;
  if (cnt != want_cnt)
    fail("C14/TABLE/" + name + "/entry_count", name + " has " + std::to_string(cnt) + " entries, the field needs " + std::to_string(want_cnt), "# property C14\ntable=" + name + " index=count\n");
  size_t lim = cnt;
  for (size_t i = 0; i < lim && !failed; i++) {
    if (only >= 0 && (size_t)only != i) continue;
    uint64_t want;
    st.evaluations++;
    st.classes[name]++;
    if (!expect(i, want)) continue;  // sentinel entry, skipped
    uint64_t got = get_elem(p, es, i);
    std::string txt = "table=" + name + " index=" + std::to_string(i) + "\n";
    if (nontrivial(i)) { st.nontrivial++; st.distinct.insert(hash_text(txt)); if (st.samples.size() < 8 && st.distinct.size() % 20011 == 1) st.samples.push_back(txt + "  (value " + std::to_string(got) + ")"); }
    if (got != want)
      fail("C14/TABLE/" + name + "/wrong_entry", name + "[" + std::to_string(i) + "] = " + std::to_string(got) + ", field arithmetic gives " + std::to_string(want) + (g_use_prefix.empty() ? "" : " (" + g_use_prefix.substr(0, g_use_prefix.size() - 1) + ")"), "# property C14\n" + g_use_prefix + txt);
  }
}

// ordinary use of the GF(2^m) codec through the public API: one encoder session (all repairs of a tiny block) and one
// decoder session (source 0 lost, first repair in its place). Returns the number of calls that did not behave.
static int rsm_use(uint32_t m, uint64_t start, uint64_t count) {
  int bad = 0;
  for (uint64_t i = start; i < start + count; i++) {
    uint32_t k = 1 + (uint32_t)(i % 5), r = 1 + (uint32_t)((i / 5) % 3), n = k + r, L = 8;
    uint8_t bufs[8][8]; void* tab[8];
    for (uint32_t j = 0; j < n; j++) { memset(bufs[j], (int)(i * 7 + j * 13 + 1), 8); if (j < k) bufs[j][j % 8] ^= (uint8_t)(i >> 3); tab[j] = bufs[j]; }
    void* e = nullptr;
    if (sh_create(&e, SH_RSM, SH_ENC) != 0 || !e) { bad++; continue; }
    if (sh_set_params(e, SH_RSM, k, r, L, m, 0, 0) != 0) { bad++; sh_release(e); continue; }
    for (uint32_t j = k; j < n; j++) if (sh_build(e, tab, j) != 0) bad++;
    sh_release(e);
    void* d = nullptr;
    if (sh_create(&d, SH_RSM, SH_DEC) != 0 || !d) { bad++; continue; }
    if (sh_set_params(d, SH_RSM, k, r, L, m, 0, 0) != 0) { bad++; sh_release(d); continue; }
    uint8_t rx[8][8];
    for (uint32_t j = 1; j <= k; j++) { memcpy(rx[j], bufs[j], 8); if (sh_decode_new(d, rx[j], j) != 0) bad++; }   // ESIs 1..k: sources 1..k-1 and the first repair
    void* out[8] = {nullptr};
    if (!sh_is_complete(d) || sh_get_src_tab(d, out) != 0 || !out[0] || memcmp(out[0], bufs[0], 8) != 0) bad++;
    if (out[0]) { bool mine = false; for (uint32_t j = 1; j <= k; j++) if (out[0] == (void*)rx[j]) mine = true; if (!mine) free(out[0]); }
    sh_release(d);
  }
  return bad;
}

static bool g_c14_thorough = false;
static void set_c14_rule() {
  st.rule = std::string("every entry of every multiplication / inverse / log / exp table of the GF(2^m) codec (precomputed, incl. the packed two-nibble table) and of the GF(2^8) codec (generated at first use, and after five further calls of the exported of_rs_init under verbosity 0, 1 and 2), compared with shift-and-reduce arithmetic in GF(2)[x]/(x^4+x+1) and GF(2)[x]/(x^8+x^4+x^3+x^2+1); log entry 0 is a documented sentinel and skipped; the generated GF(2^8) tables are checked again, completely, after ordinary use of the codec kernel in three further workers (codec contexts created and freed | plus a repair symbol encoded | plus an erasure decoded), whenever the number of contexts reaches 2^j or 2^j + 1, up to ") + (g_c14_thorough ? "2^23 + 1" : "2^20 + 1") + " contexts; the precomputed GF(2^m) tables are checked again after 2^j and 2^j + 1 encoder+decoder session pairs driven through the public API (m = 4 and m = 8, up to " + (g_c14_thorough ? "2^19 + 1" : "2^16 + 1") + " pairs); non-trivial = both operands (or the index) outside {0,1}";
  st.exhaustive = true;
}
static void run_c14(const std::string& only_table = "", long only_index = -1, int use_flavour = 0, uint64_t use_sessions = 0) {
  const ref::GF& f4 = ref::gf4(); const ref::GF& f8 = ref::gf8();
  set_c14_rule();
  st.exhaustive = true;
  if (use_flavour == 0) st.subspaces.push_back("all table indices of three table sets (finite), enumerated completely");
  else st.subspaces.push_back("all indices of the generated GF(2^8) tables after 2^j and 2^j + 1 codec contexts, j = 0.." + std::string(g_c14_thorough ? "23" : "20") + ", for three kinds of use; the history space (which calls, which parameters) is sampled: k in 1..5, n - k in 1..3, 8-byte symbols");
  const void* p; size_t es, cnt, stride;
  auto want = [&](const std::string& n) { return only_table.empty() || only_table == n; };
  auto gf_tables = [&]() {
    if (want("gf24_mul") && shp_gf_table(0, &p, &es, &cnt)) check_table("gf24_mul", p, es, cnt, 256, [&](size_t i, uint64_t& w) { w = f4.mul(i / 16, i % 16); return true; }, [](size_t i) { return i / 16 > 1 && i % 16 > 1; }, only_index);
    if (want("gf24_opt_mul") && shp_gf_table(1, &p, &es, &cnt)) check_table("gf24_opt_mul", p, es, cnt, 16 * 256, [&](size_t i, uint64_t& w) { unsigned c = i / 256, b = i % 256; w = (unsigned)(f4.mul(c, b >> 4) << 4) | f4.mul(c, b & 15); return true; }, [](size_t i) { return i / 256 > 1 && (i % 256) > 1; }, only_index);
    if (want("gf24_inv") && shp_gf_table(2, &p, &es, &cnt)) check_table("gf24_inv", p, es, cnt, 16, [&](size_t i, uint64_t& w) { if (!i) return false; w = f4.inv(i); return true; }, [](size_t i) { return i > 1; }, only_index);
    if (want("gf24_log") && shp_gf_table(3, &p, &es, &cnt)) check_table("gf24_log", p, es, cnt, 16, [&](size_t i, uint64_t& w) { if (!i) return false; w = (uint64_t)f4.log_[i]; return true; }, [](size_t i) { return i > 1; }, only_index);
    if (want("gf24_exp") && shp_gf_table(4, &p, &es, &cnt)) check_table("gf24_exp", p, es, cnt, 16, [&](size_t i, uint64_t& w) { w = f4.pow_x((unsigned)i); return true; }, [](size_t i) { return i > 1; }, only_index);
    if (want("gf28_mul") && shp_gf_table(5, &p, &es, &cnt)) check_table("gf28_mul", p, es, cnt, 65536, [&](size_t i, uint64_t& w) { w = f8.mul(i / 256, i % 256); return true; }, [](size_t i) { return i / 256 > 1 && i % 256 > 1; }, only_index);
    if (want("gf28_inv") && shp_gf_table(6, &p, &es, &cnt)) check_table("gf28_inv", p, es, cnt, 256, [&](size_t i, uint64_t& w) { if (!i) return false; w = f8.inv(i); return true; }, [](size_t i) { return i > 1; }, only_index);
    if (want("gf28_log") && shp_gf_table(7, &p, &es, &cnt)) check_table("gf28_log", p, es, cnt, 256, [&](size_t i, uint64_t& w) { if (!i || i >= 256) return false; w = (uint64_t)f8.log_[i]; return true; }, [](size_t i) { return i > 1; }, only_index);
    if (want("gf28_exp") && shp_gf_table(8, &p, &es, &cnt)) check_table("gf28_exp", p, es, cnt, 256, [&](size_t i, uint64_t& w) { w = f8.pow_x((unsigned)i); return true; }, [](size_t i) { return i > 1; }, only_index);
  };
  if (use_flavour >= 4 && shp_gf_available()) {
    // the precomputed tables of the GF(2^m) codec are writable objects too: after 2^j and 2^j + 1 pairs of sessions
    // (encoder + decoder of a tiny block, public API, m = 4 for flavour 4 and m = 8 for flavour 5) they must still be the field
    uint32_t m = use_flavour == 4 ? 4 : 8;
    std::vector<uint64_t> cps;
    for (uint64_t c = 1; c <= use_sessions; c *= 2) { cps.push_back(c); if (c + 1 <= use_sessions) cps.push_back(c + 1); }
    uint64_t done = 0;
    for (uint64_t cp : cps) {
      if (failed) break;
      int bad = rsm_use(m, done, cp - done); done = cp;
      char b[96]; snprintf(b, sizeof b, "use flavour=%d sessions=%llu\n", use_flavour, (unsigned long long)cp);
      g_use_prefix = b; cur.put(std::string("# property C14\n") + b + "table=gf28_mul index=0\n");
      if (bad) fail("C14/USE/codec_call_failed", std::to_string(bad) + " call(s) of the GF(2^m) codec failed or decoded wrongly on valid input", std::string("# property C14\n") + b + "table=gf28_mul index=0\n");
      st.counters["gf2m_table_checks_after_use"]++;
      gf_tables();
    }
    st.counters["gf2m_session_pairs_m" + std::to_string(m)] += done;
    g_use_prefix.clear();
  }
  else if (use_flavour != 0) { /* static tables of the GF(2^m) codec are checked by workers 0, 4, 5 */ }
  else if (shp_gf_available()) { gf_tables(); } else st.counters["unavailable:probe_gf"]++;
  if (use_flavour >= 4) { /* GF(2^m) workers do not touch the RS-2^8 copy */ }
  else if (shp_rs8_available()) {
    // generated at first use; then regenerated twice through the exported of_rs_init(): the tables must
    // be the field after every generation
    auto rs8_tables = [&]() {
      if (want("rs8_exp") && shp_rs8_table(0, &p, &es, &cnt, &stride)) check_table("rs8_exp", p, es, cnt, 510, [&](size_t i, uint64_t& w) { w = f8.pow_x((unsigned)i); return true; }, [](size_t i) { return i > 1; }, only_index);
      if (want("rs8_log") && shp_rs8_table(1, &p, &es, &cnt, &stride)) check_table("rs8_log", p, es, cnt, 256, [&](size_t i, uint64_t& w) { if (!i || i >= 256) return false; w = (uint64_t)f8.log_[i]; return true; }, [](size_t i) { return i > 1; }, only_index);
      if (want("rs8_inverse") && shp_rs8_table(2, &p, &es, &cnt, &stride)) check_table("rs8_inverse", p, es, cnt, 256, [&](size_t i, uint64_t& w) { if (!i || i >= 256) return false; w = f8.inv(i); return true; }, [](size_t i) { return i > 1; }, only_index);
      if (want("rs8_mul") && shp_rs8_table(3, &p, &es, &cnt, &stride)) check_table("rs8_mul", p, es, cnt, stride * stride, [&](size_t i, uint64_t& w) { size_t a = i / stride, b = i % stride; if (a >= 256 || b >= 256) return false; w = f8.mul((unsigned)a, (unsigned)b); return true; }, [&](size_t i) { return i / stride > 1 && i % stride > 1; }, only_index);
    };
    if (use_flavour == 0) {
      // generations: first use and one regeneration (verbosity 0), then regenerations under each documented verbosity
      // (the tables are generated whenever the first RS session of a process is used, whatever was asked for then), then quiet again
      static const uint32_t verb_of_round[6] = {0, 0, 1, 2, 0, 2};
      for (int round = 0; round < 6 && !failed; round++) {
        shp_set_verbosity(verb_of_round[round]);
        if (round) shp_rs8_reinit();
        shp_set_verbosity(0);
        st.counters["rs8_table_generations"]++;
        char b[64]; snprintf(b, sizeof b, "generation round=%d verbosity=%u\n", round, verb_of_round[round]);
        g_use_prefix = b;
        rs8_tables();
        g_use_prefix.clear();
      }
    } else {
      // the generated tables are process-wide and writable: they must still be the field after any amount of ordinary
      // use. Codec contexts are created/used/freed and the tables re-checked when the count reaches 2^j and 2^j + 1.
      std::vector<uint64_t> cps;
      for (uint64_t c = 1; c <= use_sessions; c *= 2) { cps.push_back(c); if (c + 1 <= use_sessions) cps.push_back(c + 1); }
      cps.push_back(use_sessions);
      std::sort(cps.begin(), cps.end()); cps.erase(std::unique(cps.begin(), cps.end()), cps.end());
      uint64_t done = 0;
      for (uint64_t cp : cps) {
        if (failed) break;
        int bad = shp_rs8_use(use_flavour, done, cp - done); done = cp;
        char b[96]; snprintf(b, sizeof b, "use flavour=%d sessions=%llu\n", use_flavour, (unsigned long long)cp);
        g_use_prefix = b; cur.put(std::string("# property C14\n") + b + "table=rs8_mul index=0\n");
        if (bad) fail("C14/USE/codec_call_failed", std::to_string(bad) + " call(s) of the RS-2^8 codec kernel failed or decoded wrongly on valid input", std::string("# property C14\n") + b + "table=rs8_mul index=0\n");
        st.counters["rs8_table_checks_after_use"]++;
        rs8_tables();
      }
      st.counters["rs8_contexts_created_flavour_" + std::to_string(use_flavour)] += done;
      g_use_prefix.clear();
    }
  } else {
    // black-box fallback: the RS-2^8 products observed through the exported-codec kernel are covered by C13/C06
    st.counters["unavailable:probe_rs8"]++;
  }
}

int main(int argc, char** argv) {
  int report_fd = dup(1); rep = fdopen(report_fd, "w");
  { int nf = open("/dev/null", O_WRONLY); if (nf >= 0) { dup2(nf, 1); close(nf); } }
  std::string prop = arg(argc, argv, "--prop", "C13");
  bool thorough = arg(argc, argv, "--tier", "quick") == "thorough";
  std::string out = arg(argc, argv, "--out", ""), failout = arg(argc, argv, "--fail-out", ""), curp = arg(argc, argv, "--cur", ""), replay = arg(argc, argv, "--replay", "");
  uint64_t seed = strtoull(arg(argc, argv, "--seed", "1").c_str(), nullptr, 10);
  int worker = atoi(arg(argc, argv, "--worker", "0").c_str()), nworkers = atoi(arg(argc, argv, "--nworkers", "1").c_str());
  if (!replay.empty()) {
    std::string txt; if (!read_file(replay, txt)) { fprintf(rep, "REPLAY-ERROR cannot read\n"); return 2; }
    size_t pos = 0; bool any = false;
    while (pos < txt.size()) {
      size_t e = txt.find('\n', pos); if (e == std::string::npos) e = txt.size();
      std::string line = txt.substr(pos, e - pos); pos = e + 1;
      if (line.empty() || line[0] == '#') continue;
      if (line.compare(0, 5, "kern=") == 0) {
        char kn[64]; Tuple t{}; unsigned long long cs = 0;
        t.a_other = -1;
        if (sscanf(line.c_str(), "kern=%63s size=%u count=%u align=%u c=%u content=%d cseed=%llu other=%d", kn, &t.size, &t.cnt, &t.a_single, &t.c, &t.content, &cs, &t.a_other) >= 6) {
          t.cseed = cs; t.kern = -1;
          for (int k = 0; k < K_COUNT; k++) if (!strcmp(kn, kern_names[k])) t.kern = k;
          if (t.kern >= 0 && kern_available(t.kern)) { any = true; run_tuple(t); }
        }
      } else if (line.compare(0, 6, "group ") == 0) {
        char kn[64]; unsigned sz, al; int bigp, th; unsigned long long sd;
        if (sscanf(line.c_str(), "group kern=%63s size=%u align=%u big=%d thorough=%d seed=%llu", kn, &sz, &al, &bigp, &th, &sd) == 6) {
          for (int k = 0; k < K_COUNT; k++) if (!strcmp(kn, kern_names[k]) && kern_available(k)) { any = true; run_group(k, sz, al, bigp, th != 0, sd, false); }
        }
      } else if (line.compare(0, 4, "use ") == 0) {
        int fl = 0; unsigned long long ns = 0;
        if (sscanf(line.c_str(), "use flavour=%d sessions=%llu", &fl, &ns) == 2 && fl >= 1 && fl <= 5) { run_c14("", -1, fl, ns); any = true; }
      } else if (line.compare(0, 6, "table=") == 0) {
        char tn[64]; char idx[32];
        if (sscanf(line.c_str(), "table=%63s index=%31s", tn, idx) == 2) { if (!any) run_c14(); any = true; }
      }
    }
    if (!any) { fprintf(rep, "REPLAY-ERROR nothing to replay\n"); return 2; }
    if (failed) { fprintf(rep, "REPLAY-FAIL %s :: %s\n", fsig.c_str(), fmsg.c_str()); return 1; }
    fprintf(rep, "REPLAY-PASS\n"); return 0;
  }
  if (!curp.empty()) cur.open(curp);
  g_c14_thorough = thorough;
  if (prop == "C13") run_c13(thorough, worker, nworkers, seed);
  else if (worker == 0) run_c14();
  else if (worker <= 3) run_c14("", -1, worker, thorough ? (1ull << 23) + 1 : (1ull << 20) + 1);
  else if (worker <= 5) run_c14("", -1, worker, thorough ? (1ull << 19) + 1 : (1ull << 16) + 1);
  else { set_c14_rule(); }
  cur.clear();
  if (failed && !failout.empty()) write_file(failout, "# signature " + fsig + "\n# " + fmsg + "\n" + freplay);
  if (!out.empty()) write_stats(out, prop, st, failed, fsig, fmsg, failed ? failout : "");
  fprintf(rep, "%s worker %d: %llu evaluations, %s\n", prop.c_str(), worker, (unsigned long long)st.evaluations, failed ? ("FAIL " + fsig).c_str() : "ok");
  return failed ? 1 : 0;
}
