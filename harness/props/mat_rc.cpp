// E3: stateful model-based testing of the sparse (C17) and dense (C18) GF(2) matrix modules, the
// popcount helpers and the dense symbol solver. Operation sequences come from a rapidcheck
// choice stream; the model is a set of (row, col) pairs / a plain bit matrix.
#include <rapidcheck.h>
#include "../report.hpp"
#include "../shim.h"
#include "../alloc_track.hpp"
#include "../hist/history.hpp"
#include "../hist/gen.hpp"
#include <set>
#include <sstream>
#include <functional>

using namespace hist;

static std::string arg(int argc, char** argv, const char* name, const char* def = "") {
  for (int i = 1; i + 1 < argc; i++) if (!strcmp(argv[i], name)) return argv[i + 1];
  return def;
}

// ---------------------------------------------------------------------------------------------
enum OpKind {
  S_ALLOC, S_INSERT, S_FIND, S_DELETE, S_BULK, S_BULKDEL, S_CLEAR, S_COPY, S_COPYROWS, S_COPYCOLS, S_COPYROWS_OPT, S_COPYCOLS_OPT,
  S_COPY_FILLED, S_TO_DENSE, S_FROM_DENSE, S_QUERY, S_FREE,
  D_ALLOC, D_SET, D_GET, D_FLIP, D_CLEAR, D_COPY, D_COPYROWS, D_COPYCOLS, D_XOR, D_FILL, D_WEIGHTS, D_FREE,
  X_SOLVE, S_DELRUN, OP_KINDS
};
static const char* const kind_names[] = {
  "s_alloc", "s_insert", "s_find", "s_delete", "s_bulk", "s_bulkdel", "s_clear", "s_copy", "s_copyrows", "s_copycols", "s_copyrows_opt",
  "s_copycols_opt", "s_copy_filled", "s_to_dense", "s_from_dense", "s_query", "s_free",
  "d_alloc", "d_set", "d_get", "d_flip", "d_clear", "d_copy", "d_copyrows", "d_copycols", "d_xor", "d_fill", "d_weights", "d_free",
  "x_solve", "s_delrun"};

struct MOp { int kind = 0; uint32_t a = 0, b = 0, c = 0, d = 0; uint64_t seed = 0; };
typedef std::vector<MOp> Seq;

static std::string seq_text(const Seq& s) {
  std::ostringstream o;
  for (const MOp& op : s) o << "op " << kind_names[op.kind] << " " << op.a << " " << op.b << " " << op.c << " " << op.d << " " << op.seed << "\n";
  return o.str();
}
static bool seq_parse(const std::string& txt, Seq& s) {
  s.clear();
  std::istringstream in(txt); std::string line;
  while (std::getline(in, line)) {
    std::istringstream ls(line); std::string w, k;
    if (!(ls >> w) || w != "op") continue;
    MOp op; ls >> k >> op.a >> op.b >> op.c >> op.d >> op.seed;
    op.kind = -1;
    for (int i = 0; i < OP_KINDS; i++) if (k == kind_names[i]) op.kind = i;
    if (op.kind < 0) return false;
    s.push_back(op);
  }
  return !s.empty();
}

// ---------------------------------------------------------------------------------------------
struct Verdict { bool failed = false; std::string sig, msg; uint64_t features = 0; };
enum : uint64_t { FT_DEL_INS = 1, FT_CLEAR_INS = 2, FT_BIG = 4, FT_COPY_NONEMPTY = 8, FT_ODDCOLS = 16, FT_SOLVE_FULL = 32, FT_SOLVE_DEF = 64, FT_SOLVE_SWAP = 128, FT_HUGE = 256, FT_TALL = 512, FT_TALLDENSE = 1024 };

struct Interp {
  static const int NS = 4;
  Verdict v;
  // sparse
  struct SP { void* m = nullptr; uint32_t rows = 0, cols = 0; std::set<std::pair<uint32_t, uint32_t>> model; bool deleted_since = false, cleared_since = false; std::vector<std::pair<uint32_t, uint32_t>> last_deleted; };
  SP sp[NS];
  // dense
  struct DN { void* d = nullptr; uint32_t rows = 0, cols = 0; std::vector<std::vector<uint8_t>> model; };
  DN dn[NS];
  std::string prop;

  void fail(const std::string& sig, const std::string& msg) { if (!v.failed) { v.failed = true; v.sig = prop + "/" + sig; v.msg = msg; } }

  // ---- sparse helpers
  void sp_free(int i) {
    if (!sp[i].m) return;
    at::at_tag = 100 + i;
    shp_sp_free(sp[i].m);
    size_t left = at::count_tag(100 + i);
    if (left) {
      fail("SPARSE/leak_after_free", std::to_string(left) + " allocation(s) of the matrix still live after of_mod2sparse_free");
      std::vector<uintptr_t> ps; at::for_tag(100 + i, [&](const at::Ent& e) { ps.push_back(e.p); });
      for (uintptr_t p : ps) at::on_free((void*)p);
    }
    sp[i] = SP();
  }
  void sp_alloc(int i, uint32_t r, uint32_t c) {
    sp_free(i);
    at::at_tag = 100 + i;
    sp[i].m = shp_sp_alloc(r, c); sp[i].rows = r; sp[i].cols = c;
    if (!sp[i].m) fail("SPARSE/allocate_failed", "of_mod2sparse_allocate returned NULL");
  }
  void sp_validate(int i, const char* after) {
    SP& s = sp[i];
    if (!s.m || v.failed) return;
    long cap = (long)s.model.size() + 8;
    std::vector<int32_t> rr((size_t)cap), cc((size_t)cap);
    long n = shp_sp_dump_rows(s.m, rr.data(), cc.data(), cap);
    if (n != (long)s.model.size()) { fail("SPARSE/row_traversal_count", std::string("after ") + after + ": row traversals list " + std::to_string(n) + " entries, model has " + std::to_string(s.model.size())); return; }
    long k = 0;
    for (auto& e : s.model) {  // set order is row-major increasing
      if (rr[k] != (int32_t)e.first || cc[k] != (int32_t)e.second) { fail("SPARSE/row_traversal_differs", std::string("after ") + after + ": row traversal entry #" + std::to_string(k) + " is (" + std::to_string(rr[k]) + "," + std::to_string(cc[k]) + "), model says (" + std::to_string(e.first) + "," + std::to_string(e.second) + ")"); return; }
      k++;
    }
    n = shp_sp_dump_cols(s.m, rr.data(), cc.data(), cap);
    if (n != (long)s.model.size()) { fail("SPARSE/col_traversal_count", std::string("after ") + after + ": column traversals list " + std::to_string(n) + " entries, model has " + std::to_string(s.model.size())); return; }
    std::vector<std::pair<uint32_t, uint32_t>> cm;
    for (auto& e : s.model) cm.push_back({e.second, e.first});
    std::sort(cm.begin(), cm.end());
    for (size_t q = 0; q < cm.size(); q++)
      if (cc[q] != (int32_t)cm[q].first || rr[q] != (int32_t)cm[q].second) { fail("SPARSE/col_traversal_differs", std::string("after ") + after + ": column traversal entry #" + std::to_string(q) + " differs from the model"); return; }
    if (!shp_sp_links_ok(s.m, cap * 4 + s.rows + s.cols + 8)) { fail("SPARSE/links_not_reciprocal", std::string("after ") + after + ": left/right or up/down links are not reciprocal"); return; }
    uint64_t cells = (uint64_t)s.rows * s.cols;
    if (cells <= 1600) {
      for (uint32_t r = 0; r < s.rows; r++) for (uint32_t c = 0; c < s.cols; c++)
        if ((shp_sp_find(s.m, r, c) != 0) != (s.model.count({r, c}) != 0)) { fail("SPARSE/find_disagrees", std::string("after ") + after + ": find(" + std::to_string(r) + "," + std::to_string(c) + ") disagrees with membership"); return; }
    } else {
      uint64_t x = cells;
      for (int t = 0; t < 100; t++) { uint32_t r = (uint32_t)(splitmix(x) % s.rows), c = (uint32_t)(splitmix(x) % s.cols);
        if ((shp_sp_find(s.m, r, c) != 0) != (s.model.count({r, c}) != 0)) { fail("SPARSE/find_disagrees", std::string("after ") + after + ": find disagrees with membership"); return; } }
      int t = 0; for (auto& e : s.model) { if (t++ > 100) break; if (!shp_sp_find(s.m, e.first, e.second)) { fail("SPARSE/find_disagrees", std::string("after ") + after + ": find misses an entry of the model"); return; } }
    }
    if (s.model.size() > 1024) v.features |= FT_BIG;
  }
  void mark_insert(SP& s) { if (s.deleted_since) v.features |= FT_DEL_INS; if (s.cleared_since) v.features |= FT_CLEAR_INS; }

  // ---- dense helpers
  void dn_free(int i) { if (dn[i].d) { at::at_tag = 200 + i; shp_dn_free(dn[i].d); size_t left = at::count_tag(200 + i); if (left) { fail("DENSE/leak_after_free", "allocations still live after of_mod2dense_free"); at::hard_reset(); } } dn[i] = DN(); }
  void dn_alloc(int i, uint32_t r, uint32_t c) {
    dn_free(i); at::at_tag = 200 + i;
    dn[i].d = shp_dn_alloc(r, c); dn[i].rows = r; dn[i].cols = c; dn[i].model.assign(r, std::vector<uint8_t>(c, 0));
    if (!dn[i].d) fail("DENSE/allocate_failed", "of_mod2dense_allocate returned NULL");
    if (c % 32) v.features |= FT_ODDCOLS;
  }
  void dn_validate(int i, const char* after) {
    DN& d = dn[i];
    if (!d.d || v.failed) return;
    if (shp_dn_rows(d.d) != d.rows || shp_dn_cols(d.d) != d.cols) { fail("DENSE/dimensions_changed", std::string("after ") + after); return; }
    auto row_ok = [&](uint32_t r) {
      for (uint32_t c = 0; c < d.cols; c++)
        if ((shp_dn_get(d.d, r, c) != 0) != (d.model[r][c] != 0)) { fail("DENSE/cell_differs", std::string("after ") + after + ": get(" + std::to_string(r) + "," + std::to_string(c) + ") = " + std::to_string(shp_dn_get(d.d, r, c)) + ", model says " + std::to_string((int)d.model[r][c]) + " (" + std::to_string(d.rows) + "x" + std::to_string(d.cols) + ")"); return false; }
      return true;
    };
    if (d.rows <= 4096) { for (uint32_t r = 0; r < d.rows; r++) if (!row_ok(r)) return; }
    else {
      // tall matrix: rows around the ends and around 2^15 / 2^16, the rows touched by the last operations, and a seeded sample
      std::vector<uint32_t> rs;
      for (uint32_t t = 0; t < 24; t++) { rs.push_back(t); rs.push_back(d.rows - 1 - t); }
      for (uint32_t b : {32768u, 65536u}) for (int t = -3; t <= 3; t++) if ((int64_t)b + t >= 0 && b + t < d.rows) rs.push_back(b + t);
      for (uint32_t r : touched) if (r < d.rows) rs.push_back(r);
      uint64_t x = d.rows * 31ull + d.cols + (uint64_t)touched.size();
      for (int t = 0; t < 120; t++) rs.push_back((uint32_t)(splitmix(x) % d.rows));
      for (uint32_t r : rs) if (!row_ok(r)) return;
    }
  }
  std::vector<uint32_t> touched;   // rows written by recent operations on tall dense matrices
  static uint32_t dense_cols_choice(uint32_t x) { static const uint32_t em[] = {31, 32, 33, 63, 64, 65, 96, 97, 1, 2, 7, 100, 127, 128, 129, 130}; return (x % 3 == 0) ? 1 + (x / 3) % 130 : em[(x / 3) % 16]; }

  // ---- solver
  struct Kept { void* p; std::vector<uint8_t> want; };
  std::vector<Kept> kept;   // solutions of earlier solves of this case that the caller still holds
  void check_kept(const char* when) {
    for (auto& kq : kept) if (!v.failed && memcmp(kq.p, kq.want.data(), kq.want.size()) != 0) fail("SOLVER/earlier_solution_modified", std::string("a solution returned by an earlier solve was modified ") + when);
  }
  void solve_case(const MOp& op) {
    uint64_t x = op.seed;
    uint32_t q = 1 + op.a % 70, p = q + op.b % 11, L = 1 + op.c % 40;
    // tall systems now and then: more rows than 16-bit (and more than 15-bit) indices can hold
    if ((op.d / 24) % 24 == 0) { q = 1 + op.a % 8; p = ((op.d / 576) % 2 ? 32760u : 65530u) + op.b % 20; L = 1 + op.c % 3; }
    int flavour = (int)(op.d % 6);  // 0-2 full rank, 3 dependent column, 4 zero column, 5 duplicate rows only (p may stay full)
    std::vector<std::vector<uint8_t>> A(p, std::vector<uint8_t>(q, 0));
    for (uint32_t i = 0; i < q; i++) A[i][i] = 1;
    if (flavour == 1) for (uint32_t i = 0; i < q; i++) for (uint32_t j = i + 1; j < q; j++) A[i][j] = (uint8_t)(splitmix(x) & 1);
    bool tall = p > 30000;
    if (tall) {
      v.features |= FT_TALL;
      // rows below the identity: random combinations of the unknowns (some left empty), then the identity rows
      // are scattered over the whole height so that pivots and eliminations involve rows of any index
      uint32_t dens = 1 + (uint32_t)(splitmix(x) % 3);
      for (uint32_t i = q; i < p; i++) if (splitmix(x) % 4) for (uint32_t c = 0; c < q; c++) A[i][c] = (uint8_t)(splitmix(x) % 4 < dens);
      for (uint32_t i = 0; i < q; i++) { uint32_t j = (splitmix(x) & 1) ? p - 1 - (uint32_t)(splitmix(x) % 40) : (uint32_t)(splitmix(x) % p); std::swap(A[i], A[j]); }
    }
    uint32_t nops = tall ? 64 : (flavour == 2 ? 4 * p : (flavour == 0 ? p / 2 : 2 * p));
    for (uint32_t t = 0; t < nops; t++) {
      uint32_t i = (uint32_t)(splitmix(x) % p), j = (uint32_t)(splitmix(x) % p);
      if (i == j) continue;
      if (splitmix(x) & 1) std::swap(A[i], A[j]); else for (uint32_t c = 0; c < q; c++) A[i][c] ^= A[j][c];
    }
    if (flavour == 3 && q >= 2) { uint32_t j = (uint32_t)(splitmix(x) % q); for (uint32_t i = 0; i < p; i++) { uint8_t s = 0; for (uint32_t c = 0; c < q; c++) if (c != j && ((c * 7 + op.a) % 3 == 0)) s ^= A[i][c]; A[i][j] = s; } }
    if (flavour == 4) { uint32_t j = (uint32_t)(splitmix(x) % q); for (uint32_t i = 0; i < p; i++) A[i][j] = 0; }
    if (flavour == 5 && p >= 2) { uint32_t i = (uint32_t)(splitmix(x) % p), j = (uint32_t)(splitmix(x) % p); A[i] = A[j]; }
    // rank by own elimination
    std::vector<std::vector<uint8_t>> B = A; uint32_t rank = 0;
    for (uint32_t c = 0; c < q; c++) { uint32_t pr = rank; while (pr < p && !B[pr][c]) pr++; if (pr == p) continue; std::swap(B[pr], B[rank]); for (uint32_t i = 0; i < p; i++) if (i != rank && B[i][c]) for (uint32_t cc = 0; cc < q; cc++) B[i][cc] ^= B[rank][cc]; rank++; }
    bool full = (rank == q);
    bool needs_swap = false; for (uint32_t i = 0; i < q && i < p; i++) if (!A[i][i]) needs_swap = true;
    // unknowns and right-hand sides
    std::vector<std::vector<uint8_t>> xs(q, std::vector<uint8_t>(L));
    for (auto& s : xs) for (auto& b : s) b = (uint8_t)splitmix(x);
    at::at_tag = 300;
    void* d = shp_dn_alloc(p, q);
    for (uint32_t i = 0; i < p; i++) for (uint32_t c = 0; c < q; c++) if (A[i][c]) shp_dn_set(d, i, c, 1);
    std::vector<void*> ct(p, nullptr), vt(q, nullptr);
    std::set<void*> mine;
    for (uint32_t i = 0; i < p; i++) {
      uint8_t* b = (uint8_t*)malloc(L); memset(b, 0, L);
      for (uint32_t c = 0; c < q; c++) if (A[i][c]) for (uint32_t k = 0; k < L; k++) b[k] ^= xs[c][k];
      ct[i] = b; mine.insert(b);
    }
    bool reuse = (op.d / 6) % 2 == 1, keep = (op.d / 12) % 2 == 1;
    int st = reuse ? shp_solve_reuse(d, ct.data(), vt.data(), L) : shp_solve(d, ct.data(), vt.data(), L);
    check_kept("by a later solve");
    if (full) {
      v.features |= FT_SOLVE_FULL; if (needs_swap) v.features |= FT_SOLVE_SWAP;
      if (st != 0) fail("SOLVER/full_rank_not_solved", "system " + std::to_string(p) + "x" + std::to_string(q) + " of full column rank: solver returned " + std::to_string(st));
      else for (uint32_t c = 0; c < q; c++) {
        if (!vt[c]) { fail("SOLVER/solution_missing", "variable " + std::to_string(c) + " is NULL after a successful solve"); break; }
        if (memcmp(vt[c], xs[c].data(), L) != 0) { fail("SOLVER/wrong_solution", "variable " + std::to_string(c) + " of a " + std::to_string(p) + "x" + std::to_string(q) + " full-rank system differs from the unique solution"); break; }
      }
    } else {
      v.features |= FT_SOLVE_DEF;
      if (st == 0) fail("SOLVER/rank_deficient_reported_solved", "system " + std::to_string(p) + "x" + std::to_string(q) + " of rank " + std::to_string(rank) + ": solver returned OK");
    }
    // the caller owns every symbol left in the two tables (as the ML decoder does)
    std::set<void*> all;
    for (void* ptr : ct) if (ptr) all.insert(ptr);
    for (void* ptr : vt) if (ptr) all.insert(ptr);
    for (void* ptr : mine) all.insert(ptr);
    if (keep && full && st == 0 && !v.failed) {   // the caller keeps the solution symbols of this solve
      for (uint32_t c = 0; c < q; c++) { kept.push_back(Kept{vt[c], xs[c]}); all.erase(vt[c]); }
    }
    for (void* ptr : all) free(ptr);
    shp_dn_free(d);
    size_t left = at::count_tag(300);
    if (left) { fail("SOLVER/leak", std::to_string(left) + " allocation(s) made by the solver are not reachable from the tables it returns"); at::hard_reset(); }
  }

  // ---- one operation
  void exec(const MOp& op) {
    if (v.failed) return;
    uint64_t x = op.seed;
    int i = (int)(op.a % NS);
    switch (op.kind) {
      case S_ALLOC: {
        uint32_t r = 1 + op.b % 40, c = 1 + op.c % 40;
        if (op.d % 16 == 1) { r = 1; c = 2000; } else if (op.d % 16 == 2) { r = 2000; c = 1; }
        else if (op.d % 64 == 3) {  // dimensions around 2^16: the cell count crosses 2^32 (nothing in the module may depend on it)
          static const uint32_t hd[5] = {32768, 65535, 65536, 65537, 131072};
          r = hd[op.b % 5]; c = hd[op.c % 5]; v.features |= FT_HUGE;
        }
        sp_alloc(i, r, c);
      } break;
      case S_INSERT: case S_FIND: case S_DELETE: {
        SP& s = sp[i]; if (!s.m) return;
        uint32_t r = op.b % s.rows, c = op.c % s.cols;
        at::at_tag = 100 + i;
        if (op.kind == S_INSERT) {
          if (op.d % 4 == 0 && !s.model.empty()) { auto it = s.model.begin(); std::advance(it, (long)(op.d / 4 % s.model.size())); r = it->first; c = it->second; }  // existing entry: idempotent
          if (!shp_sp_insert(s.m, r, c)) fail("SPARSE/insert_returned_null", "insert(" + std::to_string(r) + "," + std::to_string(c) + ") returned NULL");
          if (!s.model.count({r, c})) mark_insert(s);
          s.model.insert({r, c});
        } else if (op.kind == S_FIND) {
          if (op.d % 2 == 0 && !s.model.empty()) { auto it = s.model.begin(); std::advance(it, (long)(op.d / 2 % s.model.size())); r = it->first; c = it->second; }
          else if (op.d % 8 == 1 && !s.last_deleted.empty()) { auto& ld = s.last_deleted[op.d / 8 % s.last_deleted.size()]; r = ld.first; c = ld.second; }    // a recently deleted position
          if ((shp_sp_find(s.m, r, c) != 0) != (s.model.count({r, c}) != 0)) fail("SPARSE/find_disagrees", "find(" + std::to_string(r) + "," + std::to_string(c) + ") disagrees with membership");
        } else {
          if (op.d % 4 != 3 && !s.model.empty()) { auto it = s.model.begin(); std::advance(it, (long)(op.d / 4 % s.model.size())); r = it->first; c = it->second; }
          int had = s.model.count({r, c}) ? 1 : 0;
          if (shp_sp_delete(s.m, r, c) != had) fail("SPARSE/find_disagrees", "find before delete disagrees with membership");
          if (had) { s.model.erase({r, c}); s.deleted_since = true; }
        }
      } break;
      case S_BULK: {
        SP& s = sp[i]; if (!s.m) return;
        uint32_t cnt = op.d % 8 == 0 ? 1100 + op.b % 500 : op.b % 64;
        at::at_tag = 100 + i;
        for (uint32_t t = 0; t < cnt && !v.failed; t++) {
          uint32_t r = (uint32_t)(splitmix(x) % s.rows), c = (uint32_t)(splitmix(x) % s.cols);
          if (!shp_sp_insert(s.m, r, c)) fail("SPARSE/insert_returned_null", "bulk insert returned NULL");
          if (!s.model.count({r, c})) mark_insert(s);
          s.model.insert({r, c});
        }
      } break;
      case S_BULKDEL: {
        SP& s = sp[i]; if (!s.m) return;
        uint32_t cnt = op.b % 64;
        for (uint32_t t = 0; t < cnt && !s.model.empty() && !v.failed; t++) {
          auto it = s.model.begin(); std::advance(it, (long)(splitmix(x) % s.model.size()));
          if (!shp_sp_delete(s.m, it->first, it->second)) fail("SPARSE/find_disagrees", "entry of the model not found for deletion");
          s.model.erase(it); s.deleted_since = true;
        }
      } break;
      case S_CLEAR: { SP& s = sp[i]; if (!s.m) return; at::at_tag = 100 + i; shp_sp_clear(s.m); s.model.clear(); s.cleared_since = true; } break;
      case S_COPY: case S_COPYROWS: case S_COPYCOLS: case S_COPYROWS_OPT: case S_COPYCOLS_OPT: case S_COPY_FILLED: {
        int j = (int)(op.b % NS); if (i == j) j = (j + 1) % NS;
        SP& s = sp[i]; if (!s.m) return;
        bool fresh = op.kind >= S_COPYROWS_OPT;
        uint32_t wr = s.rows, wc = s.cols;
        if (op.kind == S_COPY) { wr = s.rows + op.c % 3; wc = s.cols + op.d % 3; }
        if (op.kind == S_COPYROWS || op.kind == S_COPYROWS_OPT) { wr = 1 + op.c % 40; wc = s.cols + op.d % 3; }
        if (op.kind == S_COPYCOLS || op.kind == S_COPYCOLS_OPT) { wr = s.rows + op.d % 3; wc = 1 + op.c % 40; }
        std::vector<uint32_t> ir, ic;
        if (op.kind == S_COPY_FILLED) {
          std::vector<uint32_t> ne_r, ne_c;
          for (uint32_t r = 0; r < s.rows; r++) { bool any = false; for (auto it = s.model.lower_bound({r, 0}); it != s.model.end() && it->first == r; ++it) { any = true; break; } if (any) ne_r.push_back(r); }
          std::set<uint32_t> cs; for (auto& e : s.model) cs.insert(e.second);
          ne_c.assign(cs.begin(), cs.end());
          wr = (uint32_t)ne_r.size() + op.c % 3; if (!wr) wr = 1;
          wc = (uint32_t)ne_c.size() + op.d % 3; if (!wc) wc = 1;
          std::vector<uint32_t> pr(wr), pc(wc);
          for (uint32_t t = 0; t < wr; t++) pr[t] = t; for (uint32_t t = 0; t < wc; t++) pc[t] = t;
          if (op.seed & 1) { seeded_shuffle(pr, op.seed); seeded_shuffle(pc, op.seed ^ 0x77); }
          ir.assign(s.rows, 0); ic.assign(s.cols, 0);
          for (size_t t = 0; t < ne_r.size(); t++) ir[ne_r[t]] = pr[t];
          for (size_t t = 0; t < ne_c.size(); t++) ic[ne_c[t]] = pc[t];
        }
        SP& dst = sp[j];
        bool dims_ok = dst.m && ((op.kind == S_COPY && dst.rows >= s.rows && dst.cols >= s.cols) || (op.kind == S_COPYROWS && dst.cols >= s.cols) || (op.kind == S_COPYCOLS && dst.rows >= s.rows));
        if (fresh || !dims_ok) sp_alloc(j, wr, wc);
        else if (!dst.model.empty()) v.features |= FT_COPY_NONEMPTY;
        if (v.failed) return;
        at::at_tag = 100 + j;
        std::set<std::pair<uint32_t, uint32_t>> nm;
        if (op.kind == S_COPY) { shp_sp_copy(s.m, dst.m); nm = s.model; }
        else if (op.kind == S_COPYROWS || op.kind == S_COPYROWS_OPT) {
          std::vector<uint32_t> rows(dst.rows); for (auto& r : rows) r = (uint32_t)(splitmix(x) % s.rows);
          if (op.kind == S_COPYROWS) shp_sp_copyrows(s.m, dst.m, rows.data()); else shp_sp_copyrows_opt(s.m, dst.m, rows.data());
          for (uint32_t t = 0; t < dst.rows; t++) for (auto it = s.model.lower_bound({rows[t], 0}); it != s.model.end() && it->first == rows[t]; ++it) nm.insert({t, it->second});
        } else if (op.kind == S_COPYCOLS || op.kind == S_COPYCOLS_OPT) {
          std::vector<uint32_t> cols(dst.cols); for (auto& c : cols) c = (uint32_t)(splitmix(x) % s.cols);
          if (op.kind == S_COPYCOLS) shp_sp_copycols(s.m, dst.m, cols.data()); else shp_sp_copycols_opt(s.m, dst.m, cols.data());
          for (uint32_t t = 0; t < dst.cols; t++) for (auto& e : s.model) if (e.second == cols[t]) nm.insert({e.first, t});
        } else { shp_sp_copy_filled(s.m, dst.m, ir.data(), ic.data()); for (auto& e : s.model) nm.insert({ir[e.first], ic[e.second]}); }
        if (!dst.model.empty() || dst.cleared_since) { if (!nm.empty()) { dst.cleared_since = true; mark_insert(dst); } }
        dst.model = nm;
      } break;
      case S_TO_DENSE: {
        SP& s = sp[i]; if (!s.m) return;
        if ((uint64_t)s.rows * s.cols > (1u << 22)) return;  // a dense copy of that size is not affordable
        at::at_tag = 250;
        void* d = shp_dn_alloc(s.rows + op.b % 3, s.cols + op.c % 35);
        // pre-fill so that "clear" is observable
        for (uint32_t t = 0; t < 8; t++) shp_dn_set(d, (uint32_t)(splitmix(x) % (s.rows + op.b % 3)), (uint32_t)(splitmix(x) % (s.cols + op.c % 35)), 1);
        shp_sp_to_dense(s.m, d);
        for (uint32_t r = 0; r < s.rows + op.b % 3 && !v.failed; r++) for (uint32_t c = 0; c < s.cols + op.c % 35; c++) {
          bool want = r < s.rows && c < s.cols && s.model.count({r, c});
          if ((shp_dn_get(d, r, c) != 0) != want) { fail("CONVERT/sparse_to_dense_differs", "cell (" + std::to_string(r) + "," + std::to_string(c) + ") of the dense copy differs from the sparse matrix"); break; }
        }
        shp_dn_free(d);
      } break;
      case S_FROM_DENSE: {
        SP& s = sp[i]; if (!s.m) return;
        uint32_t r0 = 1 + op.b % std::min<uint32_t>(s.rows, 2000), c0 = 1 + op.c % std::min<uint32_t>(s.cols, 2000);
        if ((uint64_t)r0 * c0 > 4000) { if (r0 > c0) r0 = 1 + r0 % 60; else c0 = 1 + c0 % 60; if ((uint64_t)r0 * c0 > 4000) { r0 = 1 + r0 % 60; c0 = 1 + c0 % 60; } }
        at::at_tag = 250;
        void* d = shp_dn_alloc(r0, c0);
        std::set<std::pair<uint32_t, uint32_t>> nm;
        uint32_t dens = 1 + op.d % 5;
        for (uint32_t r = 0; r < r0; r++) for (uint32_t c = 0; c < c0; c++) if (splitmix(x) % 6 < dens) { shp_dn_set(d, r, c, 1); nm.insert({r, c}); }
        if (!s.model.empty()) v.features |= FT_COPY_NONEMPTY;
        at::at_tag = 100 + i;
        shp_dense_to_sp(d, s.m);
        at::at_tag = 250;
        shp_dn_free(d);
        if (!nm.empty()) { s.cleared_since = true; mark_insert(s); }
        s.model = nm;
      } break;
      case S_QUERY: {
        SP& s = sp[i]; if (!s.m) return;
        std::vector<uint32_t> rw(s.rows, 0), cw(s.cols, 0);
        for (auto& e : s.model) { rw[e.first]++; cw[e.second]++; }
        for (uint32_t r = 0; r < s.rows && !v.failed; r++) {
          if (shp_sp_weight_row(s.m, r) != rw[r]) fail("SPARSE/weight_row_wrong", "weight_row(" + std::to_string(r) + ")");
          if ((shp_sp_empty_row(s.m, r) != 0) != (rw[r] == 0)) fail("SPARSE/empty_row_wrong", "empty_row(" + std::to_string(r) + ")");
        }
        for (uint32_t c = 0; c < s.cols && !v.failed; c++) if ((shp_sp_empty_col(s.m, c) != 0) != (cw[c] == 0)) fail("SPARSE/empty_col_wrong", "empty_col(" + std::to_string(c) + ")");
      } break;
      case S_DELRUN: {
        // delete a run of neighbouring entries of one row or column through traversal handles (no lookup), optionally right
        // after a successful find of one of them; the positions are remembered for later finds
        SP& s = sp[i]; if (!s.m || s.model.empty()) return;
        at::at_tag = 100 + i;
        auto it = s.model.begin(); std::advance(it, (long)(op.b % s.model.size()));
        uint32_t r = it->first, c = it->second;
        bool by_col = (op.d & 1) != 0;
        uint32_t line = by_col ? c : r;
        std::vector<uint32_t> others;   // the other coordinates on that line, in traversal order
        for (auto& e : s.model) if ((by_col ? e.second : e.first) == line) others.push_back(by_col ? e.first : e.second);
        std::sort(others.begin(), others.end());
        uint32_t pos = 0; while (pos < others.size() && others[pos] != (by_col ? r : c)) pos++;
        uint32_t before = std::min<uint32_t>(pos, (op.d >> 1) % 3), count = 1 + (op.d >> 3) % 4 + before;
        if (op.d & 64) { if (!shp_sp_find(s.m, r, c)) { fail("SPARSE/find_disagrees", "find misses an entry of the model"); return; } }   // the lookup that precedes the deletions
        std::vector<int32_t> out(count + 1);
        long n = shp_sp_delete_run(s.m, by_col ? 1 : 0, line, pos - before, count, out.data(), (long)count);
        s.last_deleted.clear();
        for (long q = 0; q < n; q++) {
          std::pair<uint32_t, uint32_t> e = by_col ? std::make_pair((uint32_t)out[q], line) : std::make_pair(line, (uint32_t)out[q]);
          if (!s.model.count(e)) { fail("SPARSE/row_traversal_differs", "a traversal handed out an entry that is not in the model"); return; }
          s.model.erase(e); s.last_deleted.push_back(e);
        }
        uint32_t expect_n = std::min<uint32_t>(count, (uint32_t)others.size() - (pos - before));
        if ((uint32_t)n != expect_n) { fail("SPARSE/row_traversal_count", "a traversal of one line saw " + std::to_string(n) + " entries where the model has " + std::to_string(expect_n)); return; }
        s.deleted_since = true;
        if (op.d & 128) for (auto& e : s.last_deleted) if (shp_sp_find(s.m, e.first, e.second)) { fail("SPARSE/find_disagrees", "find(" + std::to_string(e.first) + "," + std::to_string(e.second) + ") returns an entry that was deleted"); return; }
      } break;
      case S_FREE: sp_free(i); break;

      case D_ALLOC: {
        uint32_t r = 1 + op.b % 70, c = dense_cols_choice(op.c);
        if (op.d % 64 == 6) { r = 1 + op.b % 4; c = 2000 + op.c % 3000; }   // wide: rows of thousands of bits (weights over many words)
        if (op.d % 64 == 5) {   // tall: row indices beyond 16 bits
          static const uint32_t tr[4] = {65535, 65536, 65537, 70001};
          r = tr[(op.d / 64) % 4]; c = 1 + op.c % 40; v.features |= FT_TALLDENSE;
        }
        dn_alloc(i, r, c);
      } break;
      case D_SET: case D_GET: case D_FLIP: {
        DN& d = dn[i]; if (!d.d) return;
        uint32_t r = op.b % d.rows, c = op.c % d.cols;
        if (op.d & 2) c = d.cols - 1 - (op.c % std::min<uint32_t>(d.cols, 3));  // last columns: word boundaries
        if (d.rows > 4096) { if (op.d & 4) r = d.rows - 1 - op.b % 8; else if (op.d & 8) r = 65532 + op.b % 8; if (r >= d.rows) r = d.rows - 1; touched.push_back(r); if (touched.size() > 64) touched.erase(touched.begin()); }
        if (op.kind == D_SET) { if (shp_dn_set(d.d, r, c, op.d & 1) != 0) fail("DENSE/set_refused", "set in range returned an error"); d.model[r][c] = op.d & 1; }
        else if (op.kind == D_GET) { if ((shp_dn_get(d.d, r, c) != 0) != (d.model[r][c] != 0)) fail("DENSE/cell_differs", "get disagrees with the model"); }
        else { uint32_t b = shp_dn_flip(d.d, r, c); d.model[r][c] ^= 1; if (b != d.model[r][c]) fail("DENSE/flip_return_wrong", "flip returned " + std::to_string(b)); }
      } break;
      case D_CLEAR: { DN& d = dn[i]; if (!d.d) return; shp_dn_clear(d.d); for (auto& row : d.model) std::fill(row.begin(), row.end(), 0); } break;
      case D_FILL: { DN& d = dn[i]; if (!d.d) return; uint32_t dens = 1 + op.b % 5;
        if (op.d % 4 == 3) {   // all ones (optionally from column 32 / 64 on)
          uint32_t from = (op.d / 4 % 3) * 32; if (from >= d.cols) from = 0;
          for (uint32_t r = 0; r < d.rows; r++) for (uint32_t c = 0; c < d.cols; c++) { uint8_t b = c >= from; shp_dn_set(d.d, r, c, b); d.model[r][c] = b; }
          break;
        } for (uint32_t r = 0; r < d.rows; r++) for (uint32_t c = 0; c < d.cols; c++) { uint8_t b = splitmix(x) % 6 < dens; shp_dn_set(d.d, r, c, b); d.model[r][c] = b; } } break;
      case D_COPY: case D_COPYROWS: case D_COPYCOLS: {
        int j = (int)(op.b % NS); if (i == j) j = (j + 1) % NS;
        DN& s = dn[i]; if (!s.d) return;
        DN& dst = dn[j];
        if (op.kind == D_COPY) {
          if (!dst.d || dst.rows < s.rows || dst.cols < s.cols) dn_alloc(j, s.rows + op.c % 3, s.cols + (op.d % 3) * 17);
          shp_dn_copy(s.d, dst.d);
          for (uint32_t r = 0; r < dst.rows; r++) for (uint32_t c = 0; c < dst.cols; c++) dst.model[r][c] = (r < s.rows && c < s.cols) ? s.model[r][c] : 0;
        } else if (op.kind == D_COPYROWS) {
          if (!dst.d || dst.cols < s.cols) dn_alloc(j, 1 + op.c % 70, s.cols + (op.d % 3) * 17);
          std::vector<uint32_t> rows(dst.rows); for (auto& r : rows) r = (uint32_t)(splitmix(x) % s.rows);
          shp_dn_copyrows(s.d, dst.d, rows.data());
          for (uint32_t r = 0; r < dst.rows; r++) for (uint32_t c = 0; c < dst.cols; c++) dst.model[r][c] = c < s.cols ? s.model[rows[r]][c] : 0;
        } else {
          // equal row counts: "copy" and "merge" readings of copycols give the same matrix
          if (!dst.d || dst.rows != s.rows) dn_alloc(j, s.rows, dense_cols_choice(op.c));
          std::vector<uint32_t> cols(dst.cols); for (auto& c : cols) c = (uint32_t)(splitmix(x) % s.cols);
          shp_dn_copycols(s.d, dst.d, cols.data());
          for (uint32_t r = 0; r < dst.rows; r++) for (uint32_t c = 0; c < dst.cols; c++) dst.model[r][c] = s.model[r][cols[c]];
        }
      } break;
      case D_XOR: { DN& d = dn[i]; if (!d.d) return; uint32_t lim = std::min<uint32_t>(d.rows, 65536); /* the function takes 16-bit row numbers */ uint32_t f = op.b % lim, t = op.c % lim; if (d.rows > 4096) { if (op.d & 1) t = lim - 1 - op.c % 4; touched.push_back(t); if (touched.size() > 64) touched.erase(touched.begin()); } shp_dn_xor_rows(d.d, f, t); if (f != t) for (uint32_t c = 0; c < d.cols; c++) d.model[t][c] ^= d.model[f][c]; else for (uint32_t c = 0; c < d.cols; c++) d.model[t][c] = 0; } break;
      case D_WEIGHTS: {
        DN& d = dn[i]; if (!d.d) return;
        for (uint32_t r = 0; r < d.rows && !v.failed; r++) {
          uint32_t w = 0; for (uint32_t c = 0; c < d.cols; c++) w += d.model[r][c];
          if (shp_dn_row_weight(d.d, r) != w) fail("DENSE/row_weight_wrong", "row_weight(" + std::to_string(r) + ") = " + std::to_string(shp_dn_row_weight(d.d, r)) + ", model " + std::to_string(w));
          if ((shp_dn_row_is_empty(d.d, r) != 0) != (w == 0)) fail("DENSE/row_is_empty_wrong", "row_is_empty(" + std::to_string(r) + ")");
          for (uint32_t nb = 0; nb < d.cols && !v.failed; nb += 32) {
            uint32_t w2 = 0; for (uint32_t c = nb; c < d.cols; c++) w2 += d.model[r][c];
            if (shp_dn_row_weight_ignore_first(d.d, r, nb) != w2) fail("DENSE/row_weight_ignore_first_wrong", "row_weight_ignore_first(" + std::to_string(r) + "," + std::to_string(nb) + ")");
          }
        }
        for (uint32_t c = 0; c < d.cols && !v.failed; c++) { uint32_t w = 0; for (uint32_t r = 0; r < d.rows; r++) w += d.model[r][c]; if (shp_dn_col_weight(d.d, c) != w) fail("DENSE/col_weight_wrong", "col_weight(" + std::to_string(c) + ")"); }
      } break;
      case D_FREE: dn_free(i); break;
      case X_SOLVE: solve_case(op); break;
    }
  }

  int vmode = 0; uint64_t nops = 0;
  Verdict run(const Seq& s) {
    if (!s.empty() && s[0].kind == S_ALLOC) { uint64_t q = s[0].seed % 4; vmode = q == 0 ? 0 : q == 1 ? 1 : 2; }
    for (const MOp& op : s) {
      exec(op);
      if (v.failed) break;
      // observing changes what is observed (a lookup may move a cache): the full validation runs after every operation, after
      // every seventh, or only at the end of the case, as the first operation of the case says
      nops++;
      bool sparse_op = op.kind <= S_FREE || op.kind == S_DELRUN;
      if (sparse_op && vmode != 0 && !(vmode == 1 && nops % 7 == 0)) continue;
      if (sparse_op) for (int i = 0; i < NS; i++) sp_validate(i, kind_names[op.kind]);
      else if (op.kind <= D_FREE) for (int i = 0; i < NS; i++) dn_validate(i, kind_names[op.kind]);
      if (v.failed) break;
    }
    if (!v.failed && vmode != 0) for (int i = 0; i < NS; i++) sp_validate(i, "the last operation of the case");
    for (int i = 0; i < NS; i++) { sp_free(i); dn_free(i); }
    check_kept("by the time the case ended");
    for (auto& kq : kept) free(kq.p);
    kept.clear();
    if (at::live) at::hard_reset(); else at::reset_if_empty();
    return v;
  }
};

// ---------------------------------------------------------------------------------------------
static Seq generate(const std::string& prop, Chooser& ch, bool thorough) {
  Seq s;
  bool sparse = prop == "C17";
  if (!sparse && ch.coin(2, 5)) {
    uint32_t ns = ch.pick<uint32_t>({1, 1, 2, 3});   // several solves in one case: the second may see state left by the first
    for (uint32_t i = 0; i < ns; i++) { MOp op; op.kind = X_SOLVE; op.a = ch.next(); op.b = ch.next(); op.c = ch.next(); op.d = ch.next(); op.seed = ch.seed64(); s.push_back(op); }
    return s;
  }
  uint32_t n = ch.range(1, thorough ? 120 : 60);
  static const int sw[] = {S_ALLOC, S_INSERT, S_INSERT, S_INSERT, S_FIND, S_DELETE, S_DELETE, S_BULK, S_BULKDEL, S_CLEAR, S_COPY, S_COPYROWS, S_COPYCOLS, S_COPYROWS_OPT,
                           S_COPYCOLS_OPT, S_COPY_FILLED, S_TO_DENSE, S_FROM_DENSE, S_QUERY, S_FREE, S_INSERT, S_BULK, S_DELRUN, S_DELRUN, S_FIND, S_FIND};
  static const int dw[] = {D_ALLOC, D_SET, D_SET, D_FLIP, D_GET, D_CLEAR, D_COPY, D_COPYROWS, D_COPYCOLS, D_XOR, D_XOR, D_FILL, D_WEIGHTS, D_FREE, D_FLIP, D_FILL};
  { MOp op; op.kind = sparse ? S_ALLOC : D_ALLOC; op.a = 0; op.b = ch.next(); op.c = ch.next(); op.d = ch.next(); op.seed = ch.next(); s.push_back(op); }
  for (uint32_t i = 0; i < n; i++) {
    MOp op;
    op.kind = sparse ? sw[ch.next() % (sizeof sw / sizeof sw[0])] : dw[ch.next() % (sizeof dw / sizeof dw[0])];
    op.a = ch.next() % 4 < 2 ? 0 : ch.next(); op.b = ch.next(); op.c = ch.next(); op.d = ch.next(); op.seed = ch.seed64();
    s.push_back(op);
  }
  return s;
}

static Stats st;
static bool nontrivial(const std::string& prop, uint64_t f) {
  if (prop == "C17") return (f & (FT_DEL_INS | FT_CLEAR_INS | FT_BIG | FT_COPY_NONEMPTY | FT_HUGE)) != 0;
  return (f & (FT_ODDCOLS | FT_SOLVE_SWAP | FT_SOLVE_DEF | FT_TALLDENSE)) != 0;
}
static Verdict run_one(const std::string& prop, const Seq& s, bool count) {
  Interp in; in.prop = prop;
  Verdict v = in.run(s);
  if (count) {
    st.evaluations++;
    static const char* fn[] = {"delete_then_insert", "clear_then_insert", ">1024_entries", "copy_into_nonempty", "cols_not_multiple_of_32", "solve_full_rank", "solve_rank_deficient", "solve_needs_row_swap", "dimensions_around_2^16", "solve_tall_system", "dense_rows_beyond_16_bits"};
    for (int b = 0; b < 11; b++) if (v.features & (1ull << b)) st.feature_counts[fn[b]]++;
    st.classes[!s.empty() && s[0].kind == X_SOLVE ? (s.size() == 1 ? "solver" : "solver_sequence") : (prop == "C17" ? "sparse_sequence" : "dense_sequence")]++;
    if (nontrivial(prop, v.features)) { st.nontrivial++; std::string t = seq_text(s); if (st.distinct.insert(hash_text(t)).second && st.samples.size() < 5 && st.distinct.size() % 211 == 1) st.samples.push_back(t.size() > 1500 ? t.substr(0, 1500) + "..." : t); }
  }
  return v;
}

static Seq minimise(const std::string& prop, Seq s, const std::string& sig) {
  int budget = 800;
  for (size_t chunk = std::max<size_t>(1, s.size() / 2); chunk >= 1 && budget > 0; chunk /= 2) {
    for (size_t i = 0; i + chunk <= s.size() && budget > 0;) {
      Seq c = s; c.erase(c.begin() + i, c.begin() + i + chunk); budget--;
      Verdict v = run_one(prop, c, false);
      if (v.failed && v.sig == sig) s = c; else i++;
    }
    if (chunk == 1) break;
  }
  return s;
}

// popcount helpers: all 16-bit patterns in both halves (+ four quarters for 64 bit) + random words
static void popcounts(bool& failed, std::string& sig, std::string& msg, std::string& rp) {
  auto pc = [](uint64_t x) { int c = 0; while (x) { c += x & 1; x >>= 1; } return (uint32_t)c; };
  auto bad = [&](const char* fn, uint64_t w, uint32_t got) { if (failed) return; failed = true; sig = std::string("C18/POPCOUNT/") + fn; msg = std::string(fn) + "(" + std::to_string(w) + ") = " + std::to_string(got) + ", exact bit count is " + std::to_string(pc(w)); rp = std::string("popcount ") + fn + " " + std::to_string(w) + "\n"; };
  uint64_t x = 12345;
  for (uint32_t p = 0; p < 65536 + 20000 && !failed; p++) {
    for (int half = 0; half < 2; half++) {
      uint32_t w = p < 65536 ? (p << (16 * half)) : (uint32_t)splitmix(x);
      st.evaluations += 3;
      if (shp_hweight32(w) != pc(w)) bad("of_hweight32", w, shp_hweight32(w));
      if (shp_hweight32_naive(w) != pc(w)) bad("of_hweight32_naive", w, shp_hweight32_naive(w));
      if (shp_hweight32_table(w) != pc(w)) bad("of_hweight32_table", w, shp_hweight32_table(w));
    }
    for (int qd = 0; qd < 4; qd++) { uint64_t w = p < 65536 ? ((uint64_t)p << (16 * qd)) : splitmix(x); st.evaluations++; if ((uint32_t)shp_popcount3(w) != pc(w)) bad("of_popcount_3", w, (uint32_t)shp_popcount3(w)); }
  }
  // structured words: all combinations of "interesting" half-words (all-ones, alternating, single bits, ...)
  {
    std::vector<uint32_t> hw = {0x0000, 0xFFFF, 0xAAAA, 0x5555, 0xFF00, 0x00FF, 0x8000, 0x0001, 0x7FFF, 0xFFFE, 0xF0F0, 0x0F0F, 0x8001, 0x1234};
    for (uint32_t hi : hw) for (uint32_t lo : hw) {
      uint32_t w = (hi << 16) | lo;
      st.evaluations += 3;
      if (shp_hweight32(w) != pc(w)) bad("of_hweight32", w, shp_hweight32(w));
      if (shp_hweight32_naive(w) != pc(w)) bad("of_hweight32_naive", w, shp_hweight32_naive(w));
      if (shp_hweight32_table(w) != pc(w)) bad("of_hweight32_table", w, shp_hweight32_table(w));
      for (uint32_t hi2 : {0x00000000u, 0xFFFFFFFFu, 0xAAAAAAAAu, 0x80000000u}) { uint64_t w64 = ((uint64_t)hi2 << 32) | w; st.evaluations++; if ((uint32_t)shp_popcount3(w64) != pc(w64)) bad("of_popcount_3", w64, (uint32_t)shp_popcount3(w64)); }
    }
    for (int b = 0; b < 64 && !failed; b++) { uint64_t w64 = ~(1ull << b); st.evaluations++; if ((uint32_t)shp_popcount3(w64) != pc(w64)) bad("of_popcount_3", w64, (uint32_t)shp_popcount3(w64)); if (b < 32) { uint32_t w = ~(1u << b); if (shp_hweight32(w) != pc(w)) bad("of_hweight32", w, shp_hweight32(w)); if (shp_hweight32_table(w) != pc(w)) bad("of_hweight32_table", w, shp_hweight32_table(w)); if (shp_hweight32_naive(w) != pc(w)) bad("of_hweight32_naive", w, shp_hweight32_naive(w)); } }
  }
  for (uint32_t b = 0; b < 256 && !failed; b++) { st.evaluations++; if (shp_hweight8_table((uint8_t)b) != pc(b)) bad("of_hweight8_table", b, shp_hweight8_table((uint8_t)b)); }
  for (int t = 0; t < 4000 && !failed; t++) {
    uint32_t bits = 1 + (uint32_t)(splitmix(x) % 300), words = (bits + 31) / 32;
    std::vector<uint32_t> a(words + (words & 1));  // even number of words allocated: 64-bit loads stay inside
    uint32_t want = 0;
    for (uint32_t i = 0; i < bits; i++) if (splitmix(x) & 1) { a[i / 32] |= 1u << (i % 32); want++; }
    st.evaluations++;
    uint32_t got = shp_hweight_array(a.data(), (int32_t)bits);
    if (got != want) { failed = true; sig = "C18/POPCOUNT/of_hweight_array"; msg = "of_hweight_array over " + std::to_string(bits) + " bits (padding zero) = " + std::to_string(got) + ", exact " + std::to_string(want); rp = "popcount of_hweight_array 0\n"; }
  }
  // long arrays with structured contents (what a blocked or vectorised count accumulates before folding depends on both):
  // every multiple of 64 bits up to 8192, and 2^j (+-1, +-33) up to 2^17; all-ones, one saturated byte lane per 64-bit word,
  // alternating bits, density 7/8, first half ones
  {
    std::vector<uint32_t> lens;
    for (uint32_t b = 64; b <= 8192; b += 64) lens.push_back(b);
    for (uint32_t j = 13; j <= 17; j++) for (int d : {-33, -1, 0, 1, 33}) lens.push_back((1u << j) + d);
    for (uint32_t bits : lens) for (int pat = 0; pat < 12 && !failed; pat++) {
      uint32_t words = (bits + 31) / 32;
      std::vector<uint32_t> a(words + (words & 1), 0);
      uint32_t want = 0;
      for (uint32_t i = 0; i < bits; i++) {
        bool one;
        uint32_t byte_in_word64 = (i / 8) % 8;
        switch (pat) {
          case 0: one = true; break;
          case 9: one = (i & 1) != 0; break;
          case 10: one = splitmix(x) % 8 != 0; break;
          case 11: one = i < bits / 2; break;
          default: one = byte_in_word64 == (uint32_t)(pat - 1) || (splitmix(x) % 16 == 0);   // pat 1..8: lane pat-1 saturated
        }
        if (one) { a[i / 32] |= 1u << (i % 32); want++; }
      }
      st.evaluations++;
      uint32_t got = shp_hweight_array(a.data(), (int32_t)bits);
      if (got != want) { failed = true; sig = "C18/POPCOUNT/of_hweight_array"; msg = "of_hweight_array over " + std::to_string(bits) + " bits (pattern " + std::to_string(pat) + ", padding zero) = " + std::to_string(got) + ", exact " + std::to_string(want); rp = "popcount of_hweight_array 1\n"; }
    }
  }
}

int main(int argc, char** argv) {
  int report_fd = dup(1); FILE* rep = fdopen(report_fd, "w");
  { int nf = open("/dev/null", O_WRONLY); if (nf >= 0) { dup2(nf, 1); close(nf); } }
  static char so_buf[1 << 16], se_buf[1 << 12];
  setvbuf(stdout, so_buf, _IOFBF, sizeof so_buf); setvbuf(stderr, se_buf, _IOLBF, sizeof se_buf);
  at::install();
  std::string prop = arg(argc, argv, "--prop", "C17");
  bool thorough = arg(argc, argv, "--tier", "quick") == "thorough";
  std::string out = arg(argc, argv, "--out", ""), failout = arg(argc, argv, "--fail-out", ""), curp = arg(argc, argv, "--cur", ""), replay = arg(argc, argv, "--replay", "");
  int worker = atoi(arg(argc, argv, "--worker", "0").c_str());
  if (!shp_mat_available()) {
    st.rule = "probe_mat unavailable: the matrix entry points could not be compiled"; st.counters["unavailable:probe_mat"]++;
    if (!out.empty()) write_stats(out, prop, st, false, "", "", "");
    fprintf(rep, "%s: matrix entry points unavailable\n", prop.c_str());
    return replay.empty() ? 0 : 2;
  }
  bool failed = false; std::string fsig, fmsg, frp;
  if (!replay.empty()) {
    std::string txt; Seq s;
    if (!read_file(replay, txt)) { fprintf(rep, "REPLAY-ERROR\n"); return 2; }
    if (txt.find("\npopcount ") != std::string::npos || txt.compare(0, 9, "popcount ") == 0) { popcounts(failed, fsig, fmsg, frp); }
    else {
      if (!seq_parse(txt, s)) { fprintf(rep, "REPLAY-ERROR cannot parse\n"); return 2; }
      Verdict v = run_one(prop, s, false);
      failed = v.failed; fsig = v.sig; fmsg = v.msg;
    }
    if (failed) { fprintf(rep, "REPLAY-FAIL %s :: %s\n", fsig.c_str(), fmsg.c_str()); return 1; }
    fprintf(rep, "REPLAY-PASS\n"); return 0;
  }
  CurCase cur; if (!curp.empty()) cur.open(curp);
  st.rule = prop == "C17"
    ? "generated sequences (<= 60 operations, 120 thorough) over a pool of 4 sparse matrices (1..40 x 1..40, plus 1x2000 / 2000x1): allocate, insert (new / existing), find, delete, bulk insert (up to 1600 entries: crosses the 1024-entry block), bulk delete, clear, copy, copyrows, copycols, the _opt variants and copy_filled_matrix into fresh destinations, sparse->dense, dense->sparse, emptiness/weight queries, free; after every operation every live matrix is traversed by rows and by columns, links are checked and find is compared with the set model; non-trivial = delete->insert, clear->insert, > 1024 live entries, or copy into a non-empty destination; distinct = distinct operation sequence text"
    : "generated sequences over a pool of 4 dense matrices (1..70 rows, column counts emphasising 31,32,33,63,64,65,96,97): set/get/flip, clear, fill, copy, copyrows, copycols (equal row counts), xor_rows, weights (row, column, emptiness, ignore_first at multiples of 32), free, compared cell by cell with a plain bit-matrix model after every operation; solver cases: p x q systems (q 1..70, p-q 0..10; one case in 24 is tall: q 1..8 and p around 2^15 or 2^16 rows) of constructed rank (full: random row operations on [I;0]; deficient: dependent / zero column / duplicated row), random symbols of 1..40 bytes, rhs = A x, 1-3 solves per case on a fresh or on one reused control block, earlier solutions optionally retained and re-checked; popcount helpers over all 16-bit patterns in every 16-bit position, structured words (all-ones, alternating, one bit clear) and random words; non-trivial = column count not a multiple of 32, or solver needing a row swap, or rank-deficient system; distinct = distinct sequence text";
  Seq fseq, first_seq; std::string first_sig, first_msg;   // first_*: the failing sequence as first found, before in-process shrinking
  if (prop == "C18" && worker == 0) { popcounts(failed, fsig, fmsg, frp); st.classes["popcount"] += 1; }
  uint64_t shrink_execs = 0;
  if (!failed)
    rc::check(prop.c_str(), [&](const std::vector<uint32_t>& choices) {
      if (failed && ++shrink_execs > 1500) return;
      Chooser ch(choices.data(), choices.size());
      Seq s = generate(prop, ch, thorough);
      cur.put(seq_text(s));
      Verdict v = run_one(prop, s, true);
      if (v.failed) { if (!failed) { first_seq = s; first_sig = v.sig; first_msg = v.msg; } failed = true; fsig = v.sig; fmsg = v.msg; fseq = s; RC_FAIL(v.sig + " :: " + v.msg); }
    });
  cur.clear();
  if (failed) {
    if (!failout.empty() && !fseq.empty()) write_file(failout, "# property " + prop + "\n# signature " + fsig + "\n# " + fmsg + "\n" + seq_text(fseq));
    if (!failout.empty() && !first_seq.empty()) write_file(failout + ".orig", "# property " + prop + "\n# signature " + first_sig + "\n# " + first_msg + "\n" + seq_text(first_seq));
    if (!out.empty()) write_stats(out, prop, st, true, fsig, fmsg, failout);
    if (!fseq.empty()) { fseq = minimise(prop, fseq, fsig); Verdict v = run_one(prop, fseq, false); if (v.failed) fmsg = v.msg; frp = seq_text(fseq); }
    if (!failout.empty()) write_file(failout, "# property " + prop + "\n# signature " + fsig + "\n# " + fmsg + "\n" + frp);
  }
  if (!out.empty()) write_stats(out, prop, st, failed, fsig, fmsg, failed ? failout : "");
  fprintf(rep, "%s worker %d: %llu cases, %s\n", prop.c_str(), worker, (unsigned long long)st.evaluations, failed ? ("FAIL " + fsig).c_str() : "ok");
  return failed ? 1 : 0;
}
