// E6: eperftool block partitioning (C20) against RFC 5052 in 64-bit integer arithmetic.
#include "../report.hpp"
#include "../shim.h"
#include "../hist/history.hpp"
#include <cstdlib>

using namespace hist;
static std::string arg(int argc, char** argv, const char* name, const char* def = "") {
  for (int i = 1; i + 1 < argc; i++) if (!strcmp(argv[i], name)) return argv[i + 1];
  return def;
}
static Stats st; static bool failed = false; static std::string fsig, fmsg, freplay;
static void fail(const std::string& sig, const std::string& msg, const std::string& rp) { if (!failed) { failed = true; fsig = sig; fmsg = msg; freplay = rp; } }

static std::string g_prefix;   // calls made earlier in the current call history (part of the replay: the function must not depend on them)
static bool g_in_history = false;
static inline bool check(uint32_t B, uint32_t L, uint32_t E, bool* nontrivial = nullptr) {
  if (g_in_history) { char l[64]; snprintf(l, sizeof l, "B=%u L=%u E=%u\n", B, L, E); g_prefix += l; }
  uint32_t o[5] = {0, 0, 0, 0, 0};
  shp_blk_compute(B, L, E, o);
  uint64_t T = ((uint64_t)L + E - 1) / E;
  uint64_t N = (T + B - 1) / B;
  if (N == 0) return true;  // L = 0 is outside the property (L >= 1)
  uint64_t As = T / N, Al = (T + N - 1) / N, I = T - As * N;
  if (nontrivial) *nontrivial = (T % N != 0) && N >= 2;
  const char* why = nullptr;
  if (o[3] != N) why = "nb_blocks";
  else if (o[2] != As) why = "A_small";
  else if (o[1] != Al) why = "A_large";
  else if (o[0] != I) why = "I";
  else if (Al > B) why = "A_large_gt_B";
  else if ((uint64_t)o[0] * o[1] + ((uint64_t)o[3] - o[0]) * o[2] != T) why = "sum";
  if (why) {
    char rp[128]; snprintf(rp, sizeof rp, "B=%u L=%u E=%u\n", B, L, E);
    char m[256]; snprintf(m, sizeof m, "B=%u L=%u E=%u: got N=%u I=%u A_large=%u A_small=%u, RFC 5052 gives N=%llu I=%llu A_large=%llu A_small=%llu",
                          B, L, E, o[3], o[0], o[1], o[2], (unsigned long long)N, (unsigned long long)I, (unsigned long long)Al, (unsigned long long)As);
    fail(std::string("C20/BLOCKING/") + why, std::string(m) + (g_in_history ? " (last call of a history of calls: the replay holds all of them)" : ""), g_in_history ? g_prefix : std::string(rp));
    return false;
  }
  return true;
}

int main(int argc, char** argv) {
  int report_fd = dup(1); FILE* rep = fdopen(report_fd, "w");
  { int nf = open("/dev/null", O_WRONLY); if (nf >= 0) { dup2(nf, 1); close(nf); } }
  std::string prop = arg(argc, argv, "--prop", "C20");
  bool thorough = arg(argc, argv, "--tier", "quick") == "thorough";
  std::string out = arg(argc, argv, "--out", ""), failout = arg(argc, argv, "--fail-out", ""), replay = arg(argc, argv, "--replay", "");
  uint64_t seed = strtoull(arg(argc, argv, "--seed", "1").c_str(), nullptr, 10);
  int worker = atoi(arg(argc, argv, "--worker", "0").c_str()), nworkers = atoi(arg(argc, argv, "--nworkers", "1").c_str());
  if (!shp_blk_available()) {
    st.rule = "probe_blk unavailable"; st.counters["unavailable:probe_blk"]++;
    if (!out.empty()) write_stats(out, prop, st, false, "", "", "");
    return replay.empty() ? 0 : 2;
  }
  if (!replay.empty()) {
    std::string txt; if (!read_file(replay, txt)) { fprintf(rep, "REPLAY-ERROR\n"); return 2; }
    size_t pos = 0; bool any = false;
    while (pos < txt.size()) {
      size_t e = txt.find('\n', pos); if (e == std::string::npos) e = txt.size();
      std::string line = txt.substr(pos, e - pos); pos = e + 1;
      unsigned b, l, ee;
      if (sscanf(line.c_str(), "B=%u L=%u E=%u", &b, &l, &ee) == 3) { any = true; check(b, l, ee); }
    }
    if (!any) { fprintf(rep, "REPLAY-ERROR nothing to replay\n"); return 2; }
    if (failed) { fprintf(rep, "REPLAY-FAIL %s :: %s\n", fsig.c_str(), fmsg.c_str()); return 1; }
    fprintf(rep, "REPLAY-PASS\n"); return 0;
  }
  uint32_t R = thorough ? 4096 : 1536;
  st.rule = "complete: every T, B in 1.." + std::to_string(R) + " with E=1, and for E in {2,3,1024} L in {T*E, T*E-1, (T-1)*E+1}; sampled (seeded): L, E, B over the full 32-bit range with boundary bias (powers of two +-1, 2^31, 2^32-1, B=1, E=1, E>L) and structured near-integer quotients (L = q*E + d and T = q*B + d with E or B above 10^9, d in 0..5); call histories (the same question asked again after d other questions with changing symbol sizes, every d up to a bound: the answer may depend on nothing but B, L, E); non-trivial = T not divisible by N and N >= 2, or a call history; distinct = distinct (B, L, E) / distinct history";
  st.exhaustive = true;
  st.subspaces.push_back("T,B in 1.." + std::to_string(R) + " (E=1 and E in {2,3,1024} with three L per T): complete; full 32-bit range: sampled");
  // complete small range, B sharded over workers
  for (uint32_t B = 1 + (uint32_t)worker; B <= R && !failed; B += (uint32_t)nworkers)
    for (uint32_t T = 1; T <= R && !failed; T++) {
      bool nt;
      check(B, T, 1, &nt); st.evaluations++;
      if (nt) { st.nontrivial++; st.distinct.insert(mix2(((uint64_t)B << 32) | T, 1)); }
      if (T % 7 == 0 || thorough)
        for (uint32_t E : {2u, 3u, 1024u}) {
          uint64_t Ls[3] = {(uint64_t)T * E, (uint64_t)T * E - 1, (uint64_t)(T - 1) * E + 1};
          for (uint64_t L : Ls) { if (L == 0 || L > 0xFFFFFFFFULL) continue; check(B, (uint32_t)L, E, &nt); st.evaluations++; if (nt) { st.nontrivial++; st.distinct.insert(mix2(((uint64_t)B << 32) | L, E)); } }
        }
    }
  // sampled full range
  uint64_t x = mix2(seed, (uint64_t)worker);
  auto biased = [&]() -> uint32_t {
    uint64_t r = splitmix(x);
    switch (r % 8) {
      case 0: return (uint32_t)(1u << (splitmix(x) % 32));
      case 1: return (uint32_t)((1ull << (1 + splitmix(x) % 32)) - 1);
      case 2: return (uint32_t)((1u << (splitmix(x) % 32)) + 1);
      case 3: return (uint32_t)(1 + splitmix(x) % 16);
      case 4: return 0xFFFFFFFFu - (uint32_t)(splitmix(x) % 4);
      case 5: return 0x80000000u + (uint32_t)(splitmix(x) % 3) - 1;
      default: return (uint32_t)splitmix(x);
    }
  };
  // structured: quotients that are an integer plus a tiny fraction (L = q*E + d, T = q*B + d with huge E or B),
  // where floating-point ceilings and "closest integer" helpers are most fragile
  {
    uint64_t nst = thorough ? 2000000 : 60000;
    for (uint64_t i = 0; i < nst && !failed; i++) {
      uint32_t big = biased(); if (big < 1000) big = 0xFFFFFFFFu - big;
      if (splitmix(x) & 1) big = (uint32_t)(1000000000u + splitmix(x) % 3294967295ull);
      uint64_t q = 1 + splitmix(x) % 4, d = splitmix(x) % 6;   // d = 0: exact multiple
      bool nt;
      uint64_t L = q * big + d;
      if (L >= 1 && L <= 0xFFFFFFFFull) {   // large E, L a hair above a multiple of E
        uint32_t B = 1 + (uint32_t)(splitmix(x) % 8);
        check(B, (uint32_t)L, big, &nt); st.evaluations++; if (nt) { st.nontrivial++; st.distinct.insert(mix2(((uint64_t)B << 32) | L, big)); }
        // large B, T a hair above a multiple of B (E = 1)
        check(big, (uint32_t)L, 1, &nt); st.evaluations++; if (nt) { st.nontrivial++; st.distinct.insert(mix2(((uint64_t)big << 32) | L, 1)); }
      }
      if (L >= 1 && L <= 0xFFFFFFFFull && L > d + 1) { check(big, (uint32_t)(L - d - 1), 1, &nt); st.evaluations++; }
    }
  }
  // call histories: the result is a function of (B, L, E) alone, whatever was asked before. A probe is asked with one symbol
  // size, then d other questions follow (same or changing symbol sizes, same or changing (B, L)), then the probe is asked
  // again with another symbol size; every distance d up to a bound, and around 2^j beyond it (counters of calls or of changes)
  {
    std::vector<uint32_t> ds;
    uint32_t dense = thorough ? 2100 : 1100;
    for (uint32_t d = 0; d <= dense; d++) ds.push_back(d);
    if (thorough) for (uint32_t j = 12; j <= 16; j++) for (int t = -3; t <= 3; t++) ds.push_back((1u << j) + t);
    static const uint32_t probes[3][2] = {{64, 100255}, {7, 1000}, {1000, 999999}};
    static const uint32_t epairs[2][2] = {{1, 4}, {3, 2}};
    uint64_t hidx = 0, hist_calls = 0, hists = 0;
    for (uint32_t d : ds) for (int pr = 0; pr < 3; pr++) for (int ep = 0; ep < 2; ep++) for (int fl = 0; fl < 3 && !failed; fl++) {
      if ((hidx++ % (uint64_t)nworkers) != (uint64_t)worker) continue;
      g_in_history = true; g_prefix.clear();
      check(probes[pr][0], probes[pr][1], epairs[ep][0]);
      for (uint32_t i = 0; i < d && !failed; i++) {
        uint32_t fb = fl == 1 ? 10 + i % 5 : 10, fL = fl == 1 ? 700 + i : 777;
        uint32_t fe = fl == 2 ? 2 : (fl == 1 ? (i % 3 == 0 ? 2 : i % 3 == 1 ? 3 : 5) : (i % 2 ? 3 : 2));
        check(fb, fL, fe);
      }
      bool nt = false;
      if (!failed) check(probes[pr][0], probes[pr][1], epairs[ep][1], &nt);
      g_in_history = false;
      hist_calls += d + 2; hists++; st.evaluations += d + 2;
      st.nontrivial++; st.distinct.insert(mix2(mix2(0x4157, d), (uint64_t)pr * 16 + ep * 4 + fl));
    }
    g_prefix.clear();
    st.counters["history_cases"] += hists; st.counters["history_calls"] += hist_calls;
    st.subspaces.push_back("call histories: probe, d other calls, probe again with another symbol size; every d in 0.." + std::to_string(dense) + std::string(thorough ? " and 2^j +-3 for j = 12..16" : "") + " x 3 probes x 2 symbol-size pairs x 3 filler patterns: complete");
  }
  uint64_t ns = thorough ? 6000000 : 80000;
  for (uint64_t i = 0; i < ns && !failed; i++) {
    uint32_t B = biased(), L = biased(), E = biased();
    if (!B) B = 1; if (!L) L = 1; if (!E) E = 1;
    bool nt; check(B, L, E, &nt); st.evaluations++;
    if (nt) { st.nontrivial++; st.distinct.insert(mix2(((uint64_t)B << 32) | L, E)); }
    if (st.samples.size() < 4 && nt && i % 1009 == 0) { char b[96]; snprintf(b, sizeof b, "B=%u L=%u E=%u", B, L, E); st.samples.push_back(b); }
  }
  if (st.samples.empty()) st.samples.push_back("B=3 L=10 E=1");
  if (failed && !failout.empty()) write_file(failout, "# property C20\n# signature " + fsig + "\n# " + fmsg + "\n" + freplay);
  if (!out.empty()) write_stats(out, prop, st, failed, fsig, fmsg, failed ? failout : "");
  fprintf(rep, "C20 worker %d: %llu evaluations, %s\n", worker, (unsigned long long)st.evaluations, failed ? ("FAIL " + fsig).c_str() : "ok");
  return failed ? 1 : 0;
}
