// E5: the RFC 5170 PRNG (C19). (A) every state 1..2^31-2 (one full cycle), sharded; (B) every maxv
// 1..12 750 000 for a set of states; (C) seeding acceptance; (D) the published check value.
#include "../report.hpp"
#include "../shim.h"
#include "../hist/history.hpp"
#include <cstdlib>

using namespace hist;
static std::string arg(int argc, char** argv, const char* name, const char* def = "") {
  for (int i = 1; i + 1 < argc; i++) if (!strcmp(argv[i], name)) return argv[i + 1];
  return def;
}
static Stats st; static bool failed = false; static std::string fsig, fmsg, freplay;
static void fail(const std::string& sig, const std::string& msg, const std::string& rp) { if (!failed) { failed = true; fsig = sig; fmsg = msg; freplay = rp; } }

static const uint64_t M = 0x7FFFFFFFULL;
static bool have_state = false;

static inline void set_state(uint64_t s) { if (have_state) shp_seed_set(s); else shp_srand(s); }

// one draw from state s with bound maxv, all demands of C19
static inline bool check_draw(uint64_t s, uint64_t maxv) {
  set_state(s);
  uint64_t got = shp_rand(maxv);
  uint64_t s1 = (16807ULL * s) % M;
  uint64_t want = (uint64_t)((double)s1 * (double)maxv / (double)0x7FFFFFFF);
  char rp[96];
  if (have_state) {
    uint64_t now; shp_seed_get(&now);
    if (now != s1) { snprintf(rp, sizeof rp, "state=%llu maxv=%llu\n", (unsigned long long)s, (unsigned long long)maxv); fail("C19/PRNG/next_state_wrong", "state " + std::to_string(s) + " moved to " + std::to_string(now) + ", Park-Miller gives " + std::to_string(s1), rp); return false; }
  }
  bool ok = (got == want) && got < maxv;
  if (ok && (unsigned __int128)s1 * maxv < ((unsigned __int128)1 << 53)) ok = (got == (uint64_t)(((unsigned __int128)s1 * maxv) / M));
  if (!ok) {
    snprintf(rp, sizeof rp, "state=%llu maxv=%llu\n", (unsigned long long)s, (unsigned long long)maxv);
    fail(got >= maxv ? "C19/PRNG/value_out_of_range" : "C19/PRNG/value_wrong", "from state " + std::to_string(s) + " with maxv " + std::to_string(maxv) + " the generator returned " + std::to_string(got) + ", RFC 5170 expression gives " + std::to_string(want), rp);
    return false;
  }
  return true;
}

static bool check_seeding(uint64_t v) {
  // seeding accepts exactly 1..2^31-2: an accepted value becomes the state, a refused one leaves it
  set_state(12345);
  if (!have_state) { shp_srand(12345); }
  shp_srand(v);
  bool valid = v >= 1 && v <= 0x7FFFFFFEULL;
  uint64_t base = valid ? v : 12345;
  uint64_t got = shp_rand(0x7FFFFFFF);
  uint64_t want = (16807ULL * base) % M;  // maxv = 2^31-1 returns the new state itself
  if (got != want) {
    fail(valid ? "C19/PRNG/valid_seed_not_taken" : "C19/PRNG/invalid_seed_accepted",
         "after srand(" + std::to_string(v) + ") the next state is " + std::to_string(got) + ", expected " + std::to_string(want) + (valid ? "" : " (seed outside 1..2^31-2 must be refused)"),
         "srand=" + std::to_string(v) + "\n");
    return false;
  }
  return true;
}

int main(int argc, char** argv) {
  int report_fd = dup(1); FILE* rep = fdopen(report_fd, "w");
  { int nf = open("/dev/null", O_WRONLY); if (nf >= 0) { dup2(nf, 1); dup2(nf, 2); close(nf); } }
  std::string prop = arg(argc, argv, "--prop", "C19");
  bool thorough = arg(argc, argv, "--tier", "quick") == "thorough";
  std::string out = arg(argc, argv, "--out", ""), failout = arg(argc, argv, "--fail-out", ""), replay = arg(argc, argv, "--replay", "");
  uint64_t seed = strtoull(arg(argc, argv, "--seed", "1").c_str(), nullptr, 10);
  int worker = atoi(arg(argc, argv, "--worker", "0").c_str()), nworkers = atoi(arg(argc, argv, "--nworkers", "1").c_str());
  if (!shp_rand_available()) {
    st.rule = "probe_rand unavailable: the PRNG entry points could not be linked"; st.counters["unavailable:probe_rand"]++;
    if (!out.empty()) write_stats(out, prop, st, false, "", "", "");
    fprintf(rep, "C19: PRNG entry points unavailable\n");
    return replay.empty() ? 0 : 2;
  }
  { uint64_t t; have_state = shp_seed_get(&t) != 0; }
  if (!replay.empty()) {
    std::string txt; if (!read_file(replay, txt)) { fprintf(rep, "REPLAY-ERROR\n"); return 2; }
    size_t pos = 0; bool any = false;
    while (pos < txt.size()) {
      size_t e = txt.find('\n', pos); if (e == std::string::npos) e = txt.size();
      std::string line = txt.substr(pos, e - pos); pos = e + 1;
      unsigned long long a, b;
      if (sscanf(line.c_str(), "state=%llu maxv=%llu", &a, &b) == 2) { any = true; check_draw(a, b); }
      else if (sscanf(line.c_str(), "srand=%llu", &a) == 1) { any = true; check_seeding(a); }
      else if (line.compare(0, 10, "checkvalue") == 0) {
        any = true; set_state(1); uint64_t v = 0; for (int i = 0; i < 10000; i++) v = shp_rand(0x7FFFFFFF);
        if (v != 1043618065ULL) fail("C19/PRNG/check_value", "10000th state from seed 1 is " + std::to_string(v), "checkvalue\n");
      }
    }
    if (!any) { fprintf(rep, "REPLAY-ERROR nothing to replay\n"); return 2; }
    if (failed) { fprintf(rep, "REPLAY-FAIL %s :: %s\n", fsig.c_str(), fmsg.c_str()); return 1; }
    fprintf(rep, "REPLAY-PASS\n"); return 0;
  }
  st.rule = "(A) every state s in 1..2^31-2 (16 shards), one draw each with maxv rotating over {1,2,3,255,50000,12750000,2 seeded}; (B, thorough) every maxv in 1..12750000 for a fixed set of states; (C) seeding with {0,1,2,2^31-3,2^31-2,2^31-1,2^31,2^32,2^63}; (D) 10000th state from seed 1; (E) for every maxv in 1..12750000 the four states whose scaled value lies within 2/(2^31-1) of an integer (where double truncation and exact division can differ); non-trivial = s >= 2^16 (both halves of the 16-bit split non-zero); distinct_nontrivial is a conservative count (one representative per 2^20 consecutive states; all 2^31-2 states are visited, exact count in counters.states_visited)";
  st.exhaustive = true;
  st.subspaces.push_back("(A) all 2^31-2 generator states: complete");
  uint64_t x = seed;
  uint64_t maxvs[8] = {1, 2, 3, 255, 50000, 12750000, 1 + splitmix(x) % 12750000, 1 + splitmix(x) % 0x7FFFFFFF};
  // (A)
  uint64_t total = 0x7FFFFFFEULL;
  uint64_t lo = 1 + total * (uint64_t)worker / (uint64_t)nworkers, hi = 1 + total * (uint64_t)(worker + 1) / (uint64_t)nworkers;
  uint64_t nt = 0;
  for (uint64_t s = lo; s < hi && !failed; s++) { check_draw(s, maxvs[s & 7]); }
  st.evaluations += hi - lo;
  nt = hi > 65536 ? hi - std::max<uint64_t>(lo, 65536) : 0;
  st.nontrivial += nt;
  st.counters["states_visited"] = hi - lo;
  st.counters["x_distinct_nontrivial_arith"] = nt;
  for (int i = 0; i < 4; i++) { uint64_t s = lo + (hi - lo) * (uint64_t)i / 4; char b[96]; snprintf(b, sizeof b, "state=%llu maxv=%llu", (unsigned long long)s, (unsigned long long)maxvs[s & 7]); if (st.samples.size() < 3) st.samples.push_back(b); }
  // (B)
  if (thorough && !failed) {
    std::vector<uint64_t> states = {1, 2, 16807, 0x7FFFFFFEULL, 0x7FFFFFFDULL, 1407677000ULL /* successor is 1 */, 127773, 2836, 1 + splitmix(x) % total, 1 + splitmix(x) % total,
                                    1 + splitmix(x) % total, 1 + splitmix(x) % total, 65535, 65536, 65537, 0x40000000ULL};
    uint64_t s = states[(size_t)worker % states.size()];
    for (uint64_t mv = 1; mv <= 12750000ULL && !failed; mv++) check_draw(s, mv);
    st.evaluations += 12750000ULL; st.nontrivial += (s >= 65536) ? 12750000ULL : 0;
    st.counters["maxv_sweeps"] = 1;
    st.subspaces.push_back("(B) all maxv in 1..12750000 for state " + std::to_string(s) + ": complete");
  }
  // (E) boundary-targeted: for EVERY maxv the matrix construction can request, the states whose scaled value
  // s'*maxv/(2^31-1) lies within 1/(2^31-1) of an integer (s'*maxv = t mod (2^31-1), t in {-1, -2, 1, 2}), where
  // truncation of the double expression and exact integer division can part ways. s' = t * maxv^-1 (the
  // modulus is prime), s = s' * 16807^-1.
  if (!failed) {
    auto inv = [](uint64_t a) { int64_t t = 0, nt = 1, r = (int64_t)M, nr = (int64_t)(a % M); while (nr) { int64_t q = r / nr; int64_t x = t - q * nt; t = nt; nt = x; x = r - q * nr; r = nr; nr = x; } if (t < 0) t += (int64_t)M; return (uint64_t)t; };
    const uint64_t inv_a = inv(16807);
    uint64_t targeted = 0;
    uint64_t mv_lo = 1 + 12750000ULL * (uint64_t)worker / (uint64_t)nworkers, mv_hi = 1 + 12750000ULL * (uint64_t)(worker + 1) / (uint64_t)nworkers;
    for (uint64_t mv = mv_lo; mv < mv_hi && !failed; mv++) {
      uint64_t im = inv(mv);
      for (uint64_t t : {M - 1, M - 2, (uint64_t)1, (uint64_t)2}) {
        uint64_t s1 = (uint64_t)(((unsigned __int128)t * im) % M);
        if (s1 == 0) continue;
        uint64_t s0 = (uint64_t)(((unsigned __int128)s1 * inv_a) % M);
        if (s0 == 0) continue;
        check_draw(s0, mv); targeted++;
        if (failed) break;
      }
    }
    st.evaluations += targeted; st.nontrivial += targeted;
    st.counters["boundary_targeted_draws"] = targeted;
    for (uint64_t mv = mv_lo; mv < mv_hi; mv += (1u << 14)) st.distinct.insert(mix2(mv, 31));
    st.subspaces.push_back("(E) for every maxv in 1..12750000: the four states whose scaled value is within 2/(2^31-1) of an integer: complete");
  }
  // (C), (D) in worker 0
  if (worker == 0 && !failed) {
    for (uint64_t v : {0ULL, 1ULL, 2ULL, 0x7FFFFFFDULL, 0x7FFFFFFEULL, 0x7FFFFFFFULL, 0x80000000ULL, 0x100000000ULL, 0x8000000000000000ULL, 0xFFFFFFFFFFFFFFFFULL}) { check_seeding(v); st.evaluations++; }
    set_state(1); uint64_t v = 0; for (int i = 0; i < 10000; i++) v = shp_rand(0x7FFFFFFF);
    st.evaluations++;
    if (v != 1043618065ULL) fail("C19/PRNG/check_value", "10000th state from seed 1 is " + std::to_string(v) + ", Park-Miller check value is 1043618065", "checkvalue\n");
  }
  // distinct non-trivial: every state once -> one representative hash per 2^20 states would undercount;
  // the driver adds the arithmetic count (x_distinct_nontrivial_arith) instead of hashing 2^31 values
  for (uint64_t s = std::max<uint64_t>(lo, 65536); s < hi; s += (1u << 20)) st.distinct.insert(mix2(s, 19));
  if (failed && !failout.empty()) write_file(failout, "# property C19\n# signature " + fsig + "\n# " + fmsg + "\n" + freplay);
  if (!out.empty()) write_stats(out, prop, st, failed, fsig, fmsg, failed ? failout : "");
  fprintf(rep, "C19 worker %d: states %llu..%llu, %s\n", worker, (unsigned long long)lo, (unsigned long long)hi, failed ? ("FAIL " + fsig).c_str() : "ok");
  return failed ? 1 : 0;
}
