#ifdef PROBE_STUB
#include "shim.h"
int shp_gf_available(void) { return 0; }
int shp_gf_table(int which, const void **p, size_t *es, size_t *cnt) { (void)which; (void)p; (void)es; (void)cnt; return 0; }
#else
#include "lib_common/of_openfec_api.h"
#include "lib_stable/reed-solomon_gf_2_m/of_reed-solomon_gf_2_m_includes.h"
#include "shim.h"
int shp_gf_available(void) { return 1; }
#define T(tab) do { *p = (const void *)(tab); *es = sizeof((tab)[0]); *cnt = sizeof(tab) / sizeof((tab)[0]); return 1; } while (0)
#define T2(tab) do { *p = (const void *)(tab); *es = sizeof((tab)[0][0]); *cnt = sizeof(tab) / sizeof((tab)[0][0]); return 1; } while (0)
int shp_gf_table(int which, const void **p, size_t *es, size_t *cnt)
{
	switch (which) {
	case 0: T2(of_gf_2_4_mul_table);
	case 1: T2(of_gf_2_4_opt_mul_table);
	case 2: T(of_gf_2_4_inv);
	case 3: T(of_gf_2_4_log);
	case 4: T(of_gf_2_4_exp);
	case 5: T2(of_gf_2_8_mul_table);
	case 6: T(of_gf_2_8_inv);
	case 7: T(of_gf_2_8_log);
	case 8: T(of_gf_2_8_exp);
	}
	return 0;
}
#endif
