#ifdef PROBE_STUB
#include "shim.h"
int shp_kern_available(void) { return 0; }
void shp_add_to_symbol(void *to, const void *from, uint32_t size) { (void)to; (void)from; (void)size; }
void shp_add_from_multiple(void *to, const void **from, uint32_t cnt, uint32_t size) { (void)to; (void)from; (void)cnt; (void)size; }
void shp_add_to_multiple(void **to, const void *from, uint32_t cnt, uint32_t size) { (void)to; (void)from; (void)cnt; (void)size; }
void shp_gf28_addmul1(uint8_t *d, uint8_t *s, uint8_t c, int sz) { (void)d; (void)s; (void)c; (void)sz; }
void shp_gf24_addmul1(uint8_t *d, uint8_t *s, uint8_t c, int sz) { (void)d; (void)s; (void)c; (void)sz; }
void shp_gf24_addmul1_compact(uint8_t *d, uint8_t *s, uint8_t c, int sz) { (void)d; (void)s; (void)c; (void)sz; }
#else
#include "lib_common/of_openfec_api.h"
#include "lib_common/linear_binary_codes_utils/of_linear_binary_code.h"
#include "lib_stable/reed-solomon_gf_2_m/of_reed-solomon_gf_2_m_includes.h"
#include "shim.h"

int shp_kern_available(void) { return 1; }
#ifdef OF_DEBUG
static UINT32 dummy_op;
#define OPARG , &dummy_op
#else
#define OPARG
#endif
void shp_add_to_symbol(void *to, const void *from, uint32_t size) { of_add_to_symbol(to, from, size OPARG); }
void shp_add_from_multiple(void *to, const void **from, uint32_t cnt, uint32_t size) { of_add_from_multiple_symbols(to, from, cnt, size OPARG); }
void shp_add_to_multiple(void **to, const void *from, uint32_t cnt, uint32_t size) { of_add_to_multiple_symbols(to, from, cnt, size OPARG); }
void shp_gf28_addmul1(uint8_t *d, uint8_t *s, uint8_t c, int sz) { of_galois_field_2_8_addmul1(d, s, c, sz); }
void shp_gf24_addmul1(uint8_t *d, uint8_t *s, uint8_t c, int sz) { of_galois_field_2_4_addmul1(d, s, c, sz); }
void shp_gf24_addmul1_compact(uint8_t *d, uint8_t *s, uint8_t c, int sz) { of_galois_field_2_4_addmul1_compact(d, s, c, sz); }
#endif
