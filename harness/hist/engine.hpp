// Shared by hist_rc (rapidcheck), hist_fuzz (libFuzzer) and the replay path: property table,
// case execution, statistics, minimisation, JSON output.
#pragma once
#include "runner.hpp"
#include "gen.hpp"
#include "../report.hpp"
#include <unistd.h>
#include <fcntl.h>
#include <sys/wait.h>
#include <unordered_set>

namespace hist {

struct PropSpec {
  const char* id;
  uint32_t enabled;
  int kind;  // 0 single decoder, 1 single encoder, 2 enc|dec mix, 3 multi (C12), 4 code (C05), 5 lastnull (C15), 6 param (C09)
  GenOpts go;
  std::function<bool(uint64_t)> nontrivial;
  const char* rule;
};

struct Tier { bool thorough = false; };

inline PropSpec prop_spec(const std::string& id, const Tier& t) {
  PropSpec p; p.id = "?"; p.enabled = 0; p.kind = 0;
  GenOpts g;
  if (t.thorough) { g.max_k_ldpc = 400; g.max_n_ldpc = 700; } else { g.max_k_ldpc = 60; g.max_n_ldpc = 120; }
  if (id == "C01") {
    p.id = "C01"; p.enabled = O_SOUND; p.kind = 0; p.go = g;
    p.nontrivial = [](uint64_t f) { return (f & F_DECODED) != 0; };
    p.rule = "generated decoder history (codec, k, r, L, N1, seed, payload, received subset, order, duplicates, API, finish, callback); non-trivial = at least one source symbol was decoded (not received) and handed back; distinct = distinct canonical history text";
  } else if (id == "C02") {
    p.id = "C02"; p.enabled = O_MDS | O_SOUND; p.kind = 0; g.codecs = GC_RS8 | GC_RSM4 | GC_RSM8; g.early_release = false; p.go = g;
    p.nontrivial = [](uint64_t f) { return (f & F_RS_DECODE) || ((f & F_DECODED) && (f & F_AVAIL)) || ((f & F_LT_K) && (f & F_FINISH)); };
    p.rule = "RS decoder history; non-trivial = subset contains a repair symbol and misses a source symbol (matrix decode happened) or fewer than k symbols with finish; distinct = distinct history text";
  } else if (id == "C03") {
    p.id = "C03"; p.enabled = O_ML | O_SOUND; p.kind = 0; g.codecs = GC_LDPC; g.finish_mode = 1; g.early_release = false; g.nrecv_focus = 1; p.go = g;
    p.nontrivial = [](uint64_t f) { return (f & F_ML_NEEDED) != 0; };
    p.rule = "LDPC decoder history ending in finish; non-trivial = peeling closure lacked a source when finish was called (ML needed); distinct = distinct history text";
  } else if (id == "C04") {
    p.id = "C04"; p.enabled = O_PEEL; p.kind = 0; g.codecs = GC_LDPC; g.finish_mode = 2; g.api_mode = 1; g.query_mode = 1; p.go = g;
    p.nontrivial = [](uint64_t f) { return (f & F_CHAIN2) != 0; };
    p.rule = "LDPC decode_with_new_symbol sequence with a query after every call; non-trivial = a source symbol entered the closure through a chain of >= 2 peeling steps; distinct = distinct history text";
  } else if (id == "C06") {
    p.id = "C06"; p.enabled = O_ENC; p.kind = 1; p.go = g;
    p.nontrivial = [](uint64_t f) { return (f & F_ENC_DEP2) != 0; };
    p.rule = "encoder history (codec, parameters, payload, build order, NULL slots); non-trivial = at least one repair symbol built from a non-zero payload; distinct = distinct history text";
  } else if (id == "C07") {
    p.id = "C07"; p.enabled = O_MEM; p.kind = 2; p.go = g;
    p.nontrivial = [](uint64_t f) { return (f & (F_DECODED | F_ML_NEEDED | F_RS_DECODE | F_ENC_DEP2)) != 0; };
    p.rule = "encoder or decoder history with exact-size buffers at generated alignments; non-trivial = history reached a decoding stage (IT, ML, RS matrix decode) or built repair symbols; distinct = distinct history text";
  } else if (id == "C08") {
    p.id = "C08"; p.enabled = O_LEAK; p.kind = 2; p.go = g;
    p.nontrivial = [](uint64_t f) { return (f & (F_EARLY_REL | F_ML_NEEDED | F_CB | F_UNCONF_REL)) != 0; };
    p.rule = "history released at a generated point; non-trivial = released before completion / before all repairs, or after an ML pass, or with callbacks, or unconfigured; distinct = distinct history text";
  } else if (id == "C10") {
    p.id = "C10"; p.enabled = O_STATUS; p.kind = 0; g.query_mode = 1; p.go = g;
    p.nontrivial = [](uint64_t f) { return (f & F_FINISH) && ((f & F_DECODED) || (f & F_FIN_COMPLETE) || (f & F_LT_K)); };
    p.rule = "decoder history with queries after every step; non-trivial = finish executed with >= 1 decoded symbol, or when already complete, or with fewer than k symbols; distinct = distinct history text";
  } else if (id == "C11") {
    p.id = "C11"; p.enabled = O_CB; p.kind = 0; g.cb_mode = 1; p.go = g;
    p.nontrivial = [](uint64_t f) { return (f & F_CB) != 0; };
    p.rule = "decoder history with a registered source callback (buffer / NULL / mixed); non-trivial = the callback was invoked at least once; distinct = distinct history text";
  }
  return p;
}

inline const char* codec_name(const Config& c) {
  switch (c.codec) { case CODEC_RS8: return "RS8"; case CODEC_RSM: return c.m == 4 ? "RSM4" : c.m == 8 ? "RSM8" : "RSM?"; case CODEC_LDPC: return "LDPC"; case CODEC_P2D: return "P2D"; }
  return "?";
}

inline std::string class_label(const History& h, uint64_t f) {
  std::string s = h.scripts.size() > 1 ? "multi" : codec_name(h.scripts[0].cfg);
  bool enc = false; for (auto& st : h.scripts[0].steps) if (st.op == OP_BUILD) enc = true;
  if (h.scripts.size() == 1) {
    if (enc) { s += "/enc"; if (f & F_ENC_NULLSLOT) s += "/nullslot"; }
    else {
      s += (f & F_AVAIL) ? "/avail" : "/new";
      s += (f & F_FINISH) ? "/fin" : "/nofin";
      if (f & F_CB) s += (f & F_CB_NULL) ? "/cbnull" : "/cbbuf";
      if (f & F_REJECTED) s += "/rejected";
      else if (f & F_GE_DECODED) s += "/ge";
      else if (f & F_ML_SOLVED) s += "/ml-peel";
      else if (f & F_UNSOLV_GEK) s += "/unsolvable>=k";
      else if (f & F_IT_DECODED) s += "/it";
      else if (f & F_RS_DECODE) s += "/rsdecode";
      else if (f & F_ALLRECV) s += "/allrecv";
      else if (f & F_COMPLETE) s += "/complete";
      else s += "/incomplete";
    }
  }
  return s;
}


static const char* const feature_names[] = {
  "decoded", "chain>=2", "ml_needed", "ml_solved", "unsolvable_with>=k", "lt_k", "all_sources_received", "cb", "cb_null",
  "early_release", "finish_when_complete", "dup", "avail_path", "rs_matrix_decode", "enc_nullslot", "enc_dep", "complete",
  "finish", "it_decoded", "ge_decoded", "rejected", "badcall", "lastnull", "multi", "rfc_extra_branches", "repair_cb",
  "boundary", "unconfigured_release", "mid_decode_release"};

struct CaseResult { bool failed = false; Fail first; uint64_t features = 0; std::vector<Fail> notes; RunResult rr; };

inline CaseResult run_case(const History& h, const PropSpec& ps, Stats* st, bool want_trace = false,
                           const std::map<int, std::shared_ptr<CodeRef>>* injected = nullptr) {
  Ctx cx; cx.enabled = ps.enabled; cx.want_trace = want_trace;
  CaseResult cr;
  cr.rr = run_history(h, cx, injected);
  cr.features = cx.features; cr.notes = cx.notes;
  if (!cx.fails.empty()) { cr.failed = true; cr.first = cx.fails[0]; }
  if (st) {
    st->evaluations++; st->skipped_steps += cx.skipped_steps; st->api_calls += cx.api_calls;
    if (cx.leak_overflow) st->leak_overflow++;
    for (auto& kv : cx.counters) st->counters[kv.first] += kv.second;
    for (int b = 0; b < (int)(sizeof(feature_names) / sizeof(feature_names[0])); b++) if (cx.features & (1ull << b)) st->feature_counts[feature_names[b]]++;
    st->classes[class_label(h, cx.features)]++;
    for (auto& n : cx.notes) { st->note_sigs[n.sig]++; if (st->note_samples.size() < 4) st->note_samples.push_back(n.sig + ": " + n.msg); }
    if (ps.nontrivial && ps.nontrivial(cx.features)) {
      st->nontrivial++;
      std::string txt = to_text(h);
      if (st->distinct.insert(hash_text(txt)).second && st->samples.size() < 6 && (st->distinct.size() % 97 == 1)) st->samples.push_back(txt.size() > 3000 ? txt.substr(0, 3000) + "\n... (" + std::to_string(txt.size()) + " characters)" : txt);
    }
  }
  return cr;
}

// ---- minimisation of a failing history (same failure signature must remain) -----------------
inline bool still_fails(const History& h, const PropSpec& ps, const std::string& sig, Fail* out = nullptr) {
  CaseResult cr = run_case(h, ps, nullptr);
  if (cr.failed && cr.first.sig == sig) { if (out) *out = cr.first; return true; }
  return false;
}
inline History minimise(History h, const PropSpec& ps, const std::string& sig, int budget = 600) {
  bool progress = true;
  while (progress && budget > 0) {
    progress = false;
    // drop whole scripts
    for (size_t i = 0; h.scripts.size() > 1 && i < h.scripts.size() && budget > 0; i++) {
      History c = h; c.scripts.erase(c.scripts.begin() + i); c.inter.clear();
      budget--;
      if (still_fails(c, ps, sig)) { h = c; progress = true; i--; }
    }
    for (size_t si = 0; si < h.scripts.size(); si++) {
      // drop steps, in chunks then one by one
      for (size_t chunk = std::max<size_t>(1, h.scripts[si].steps.size() / 2); chunk >= 1 && budget > 0; chunk /= 2) {
        for (size_t i = 0; i + chunk <= h.scripts[si].steps.size() && budget > 0;) {
          History c = h;
          auto& v = c.scripts[si].steps;
          bool has_setparams = false;
          for (size_t j = i; j < i + chunk; j++) if (v[j].op == OP_SETPARAMS) has_setparams = true;
          if (has_setparams && chunk > 1) { i++; continue; }
          v.erase(v.begin() + i, v.begin() + i + chunk);
          budget--;
          if (still_fails(c, ps, sig)) { h = c; progress = true; } else i++;
        }
        if (chunk == 1) break;
      }
      // shrink avail sets
      for (size_t j = 0; j < h.scripts[si].steps.size(); j++) {
        if (h.scripts[si].steps[j].op != OP_AVAIL) continue;
        for (size_t e = 0; e < h.scripts[si].steps[j].set.size() && budget > 0;) {
          History c = h; auto& set = c.scripts[si].steps[j].set; set.erase(set.begin() + e);
          budget--;
          if (still_fails(c, ps, sig)) { h = c; progress = true; } else e++;
        }
      }
      // simplify scalar fields
      auto try_cfg = [&](std::function<void(Script&)> f) {
        if (budget <= 0) return;
        History c = h; f(c.scripts[si]); budget--;
        if (to_text(c) != to_text(h) && still_fails(c, ps, sig)) { h = c; progress = true; }
      };
      try_cfg([](Script& s) { s.cfg.payload = PAY_IDENTITY; });
      try_cfg([](Script& s) { if (s.cfg.payload != PAY_IDENTITY) s.cfg.L = 1; });
      try_cfg([](Script& s) { if (s.cfg.payload != PAY_IDENTITY) s.cfg.L = 8; });
      try_cfg([](Script& s) { s.align = 0; });
      try_cfg([](Script& s) { s.cbmask = 0; });
      try_cfg([](Script& s) { s.cfg.pseed = 0; });
      try_cfg([](Script& s) { s.role = (s.role == ROLE_BOTH) ? ((s.steps.size() && [&] { for (auto& st : s.steps) if (st.op == OP_BUILD) return true; return false; }()) ? ROLE_ENC : ROLE_DEC) : s.role; });
      try_cfg([](Script& s) { if (s.cfg.codec == CODEC_LDPC) s.cfg.seed = 1; });
      try_cfg([](Script& s) { if (s.cfg.r > 1 && (s.cfg.codec != CODEC_LDPC || s.cfg.r > s.cfg.N1)) s.cfg.r--; });
      try_cfg([](Script& s) { if (s.cfg.codec == CODEC_LDPC && s.cfg.N1 > 3) s.cfg.N1 = 3; });
    }
  }
  return h;
}

}  // namespace hist
