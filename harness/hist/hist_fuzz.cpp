// E2: the history interpreter under libFuzzer. Bytes are decoded into the same choice stream the
// rapidcheck generators use (structure-aware: every input is a valid history), so coverage guidance
// steers towards IT/ML/RS paths. The oracle is inside the target; a failing history is written as
// a text replay before trapping.
// Environment: VERIF_FUZZ_PROP (C01...), VERIF_FUZZ_TIER, VERIF_FUZZ_OUT (stats json),
// VERIF_FUZZ_FAILOUT (replay text), VERIF_FUZZ_CUR (current case), VERIF_FUZZ_KNOWN (sig,sig)
#include "engine.hpp"
#include "special.hpp"

using namespace hist;

static PropSpec g_ps;
static Stats g_st;
static CurCase g_cur;
static std::string g_out, g_failout, g_prop;
static bool g_init = false;

static void flush_stats() {
  if (!g_out.empty()) write_stats(g_out, g_prop, g_st, false, "", "", "");
}

static void init_once() {
  if (g_init) return;
  g_init = true;
  static char so_buf[1 << 16], se_buf[1 << 12];
  int nf = open("/dev/null", O_WRONLY);
  if (nf >= 0) { dup2(nf, 1); close(nf); }   // library chatter; libFuzzer itself writes to stderr
  setvbuf(stdout, so_buf, _IOFBF, sizeof so_buf);
  (void)se_buf;
  at::install();
  const char* p = getenv("VERIF_FUZZ_PROP"); g_prop = p ? p : "C07";
  Tier t; const char* tt = getenv("VERIF_FUZZ_TIER"); t.thorough = tt && !strcmp(tt, "thorough");
  const char* kn = getenv("VERIF_FUZZ_KNOWN");
  if (kn) { std::string s = kn; size_t pos = 0; while (pos < s.size()) { size_t c = s.find(',', pos); if (c == std::string::npos) c = s.size(); if (c > pos) special::g_extra.known.insert(s.substr(pos, c - pos)); pos = c + 1; } }
  g_ps = special::full_spec(g_prop, t);
  // fuzzing favours many small cases
  g_ps.go.max_k_ldpc = std::min<uint32_t>(g_ps.go.max_k_ldpc, 40); g_ps.go.max_n_ldpc = std::min<uint32_t>(g_ps.go.max_n_ldpc, 80); g_ps.go.max_n_rs = 40; g_ps.go.big_L = false; g_ps.go.heavy = false;
  const char* o = getenv("VERIF_FUZZ_OUT"); if (o) g_out = o;
  const char* f = getenv("VERIF_FUZZ_FAILOUT"); if (f) g_failout = f;
  const char* c = getenv("VERIF_FUZZ_CUR"); if (c) g_cur.open(c);
  g_st.rule = std::string(g_ps.rule ? g_ps.rule : "") + " [coverage-guided: libFuzzer mutates the byte string that is decoded into the generator's choice stream]";
  atexit(flush_stats);
}

extern "C" int LLVMFuzzerTestOneInput(const uint8_t* data, size_t size) {
  init_once();
  if (g_ps.kind == 3) return 0;  // C12 needs the zygote; not fuzzed
  std::vector<uint32_t> choices(size / 4);
  if (!choices.empty()) memcpy(choices.data(), data, choices.size() * 4);
  Chooser ch(choices.data(), choices.size());
  History h = special::generate(g_ps, ch);
  g_cur.put(to_text(h));
  CaseResult cr = special::run_any(h, g_ps, &g_st);
  if (cr.failed) {
    if (!g_failout.empty()) write_file(g_failout + ".orig", "# property " + g_prop + "\n# signature " + cr.first.sig + "\n# " + cr.first.msg + "\n" + to_text(h));
    History m = special::minimise_any(h, g_ps, cr.first.sig, 200);
    Fail f2 = cr.first;
    { CaseResult c2 = special::run_any(m, g_ps, nullptr); if (c2.failed) f2 = c2.first; }
    if (!g_failout.empty()) write_file(g_failout, "# property " + g_prop + "\n# signature " + f2.sig + "\n# " + f2.msg + "\n" + to_text(m));
    if (!g_out.empty()) write_stats(g_out, g_prop, g_st, true, f2.sig, f2.msg, g_failout);
    fprintf(stderr, "ORACLE-FAILURE %s :: %s\n", f2.sig.c_str(), f2.msg.c_str());
    _exit(77);  // a distinct exit code: the driver replays the written history; no sanitizer report involved
  }
  if ((g_st.evaluations & 0x3fff) == 0) flush_stats();
  return 0;
}
