// History: plain-data description of one or more API call scripts, and its text form (the
// replay file format).
#pragma once
#include <cstdint>
#include <cstdio>
#include <cstdlib>
#include <cstring>
#include <string>
#include <vector>
#include <sstream>

namespace hist {

enum { CODEC_RS8 = 1, CODEC_RSM = 2, CODEC_LDPC = 3, CODEC_P2D = 5 };
enum { ROLE_ENC = 1, ROLE_DEC = 2, ROLE_BOTH = 3 };
enum { PAY_IDENTITY = 0, PAY_RANDOM = 1, PAY_ZERO = 2, PAY_ONES = 3 };

struct Config {
  int codec = CODEC_RS8;
  uint32_t k = 1, r = 1, L = 1, m = 8, N1 = 3, seed = 1;
  int payload = PAY_RANDOM;
  uint64_t pseed = 0;
  bool operator==(const Config& o) const {
    return codec == o.codec && k == o.k && r == o.r && L == o.L && m == o.m && N1 == o.N1 && seed == o.seed &&
           payload == o.payload && pseed == o.pseed;
  }
};

enum Op { OP_SETCB, OP_SETPARAMS, OP_BUILD, OP_NEW, OP_AVAIL, OP_FINISH, OP_QUERY, OP_BAD, OP_NOP, OP_SETCTRL };
static const char* const op_names[] = {"setcb", "setparams", "build", "new", "avail", "finish", "query", "bad", "nop", "setctrl"};

// kinds of deliberately wrong calls (C09). Each must return an error and leave the session usable.
enum Bad {
  BAD_NEW_ESI,        // decode_with_new_symbol with esi (>= n)
  BAD_BUILD_ESI,      // build_repair_symbol with esi (< k or >= n)
  BAD_NULL_SES,       // flag selects the API function called with a NULL session
  BAD_ROLE,           // decoder call on encoder-only session / encoder call on decoder-only session (flag selects)
  BAD_NEW_NULLBUF,    // decode_with_new_symbol with NULL buffer
  BAD_KINDS
};

struct Step {
  int op = OP_NOP;
  uint32_t esi = 0;   // build/new/bad
  uint32_t flag = 0;  // setcb: bit0 source cb, bit1 repair cb | build: 1 = NULL slot | new: 1 = other buffer
                      // query: bit0 is_complete, bit1 source tab | bad: sub-kind
  std::vector<uint32_t> set;  // avail: ESIs present
};

struct Script {
  Config cfg;
  int role = ROLE_DEC;
  int cbmode = 1;        // source callback: 1 returns buffer, 2 returns NULL, 3 per-call by cbmask
  uint64_t cbmask = 0;   // bit (call# % 64) set => return NULL
  int repmode = 0;       // repair callback: 0 returns NULL, 1 returns an L-byte buffer
  uint64_t align = 0;    // seed of per-buffer alignment offsets
  uint32_t verb = 0;     // verbosity argument of of_create_codec_instance (a process-wide setting in the library)
  std::vector<Step> steps;
};

struct History {
  std::vector<Script> scripts;
  std::vector<uint32_t> inter;  // interleaving: indices of the script that makes its next step
  uint32_t reenter = 0;         // that many source-callback invocations make ANOTHER session take its next step from inside the callback
};

inline std::string to_text(const History& h) {
  std::ostringstream o;
  o << "history v1\n";
  for (const Script& s : h.scripts) {
    o << "script codec=" << s.cfg.codec << " k=" << s.cfg.k << " r=" << s.cfg.r << " L=" << s.cfg.L
      << " m=" << s.cfg.m << " N1=" << s.cfg.N1 << " seed=" << s.cfg.seed << " payload=" << s.cfg.payload
      << " pseed=" << s.cfg.pseed << " role=" << s.role << " cbmode=" << s.cbmode << " cbmask=" << s.cbmask
      << " repmode=" << s.repmode << " align=" << s.align << " verb=" << s.verb << "\n";
    for (const Step& st : s.steps) {
      o << " step " << op_names[st.op];
      switch (st.op) {
        case OP_SETCB: case OP_QUERY: case OP_SETCTRL: o << " " << st.flag; break;
        case OP_BUILD: case OP_NEW: case OP_BAD: o << " " << st.esi << " " << st.flag; break;
        case OP_AVAIL: for (uint32_t e : st.set) o << " " << e; break;
        default: break;
      }
      o << "\n";
    }
    o << "end\n";
  }
  if (!h.inter.empty()) {
    o << "inter";
    for (uint32_t i : h.inter) o << " " << i;
    o << "\n";
  }
  if (h.reenter) o << "reenter " << h.reenter << "\n";
  return o.str();
}

inline bool from_text(const std::string& text, History& h, std::string* err = nullptr) {
  h = History();
  std::istringstream in(text);
  std::string line;
  Script* cur = nullptr;
  auto fail = [&](const std::string& m) { if (err) *err = m; return false; };
  while (std::getline(in, line)) {
    std::istringstream ls(line);
    std::string w;
    if (!(ls >> w)) continue;
    if (w[0] == '#') continue;
    if (w == "history") continue;
    if (w == "script") {
      h.scripts.emplace_back();
      cur = &h.scripts.back();
      std::string kv;
      while (ls >> kv) {
        size_t eq = kv.find('=');
        if (eq == std::string::npos) return fail("bad kv " + kv);
        std::string key = kv.substr(0, eq);
        unsigned long long v = strtoull(kv.c_str() + eq + 1, nullptr, 10);
        if (key == "codec") cur->cfg.codec = (int)v; else if (key == "k") cur->cfg.k = (uint32_t)v;
        else if (key == "r") cur->cfg.r = (uint32_t)v; else if (key == "L") cur->cfg.L = (uint32_t)v;
        else if (key == "m") cur->cfg.m = (uint32_t)v; else if (key == "N1") cur->cfg.N1 = (uint32_t)v;
        else if (key == "seed") cur->cfg.seed = (uint32_t)v; else if (key == "payload") cur->cfg.payload = (int)v;
        else if (key == "pseed") cur->cfg.pseed = v; else if (key == "role") cur->role = (int)v;
        else if (key == "cbmode") cur->cbmode = (int)v; else if (key == "cbmask") cur->cbmask = v;
        else if (key == "repmode") cur->repmode = (int)v; else if (key == "align") cur->align = v; else if (key == "verb") cur->verb = (uint32_t)v;
        else return fail("unknown key " + key);
      }
    } else if (w == "step") {
      if (!cur) return fail("step outside script");
      std::string opn; ls >> opn;
      Step st; st.op = -1;
      for (int i = 0; i <= OP_SETCTRL; i++) if (opn == op_names[i]) st.op = i;
      if (st.op < 0) return fail("unknown op " + opn);
      switch (st.op) {
        case OP_SETCB: case OP_QUERY: case OP_SETCTRL: ls >> st.flag; break;
        case OP_BUILD: case OP_NEW: case OP_BAD: ls >> st.esi >> st.flag; break;
        case OP_AVAIL: { uint32_t e; while (ls >> e) st.set.push_back(e); } break;
        default: break;
      }
      cur->steps.push_back(st);
    } else if (w == "end") {
      cur = nullptr;
    } else if (w == "reenter") {
      ls >> h.reenter;
    } else if (w == "inter") {
      uint32_t i; while (ls >> i) h.inter.push_back(i);
    } else {
      return fail("unknown line: " + line);
    }
  }
  if (h.scripts.empty()) return fail("no script");
  return true;
}

inline uint64_t fnv1a(const void* p, size_t n, uint64_t h = 1469598103934665603ULL) {
  const unsigned char* c = (const unsigned char*)p;
  for (size_t i = 0; i < n; i++) { h ^= c[i]; h *= 1099511628211ULL; }
  return h;
}
inline uint64_t hash_text(const std::string& s) { return fnv1a(s.data(), s.size()); }

inline uint64_t splitmix(uint64_t& x) {
  uint64_t z = (x += 0x9E3779B97F4A7C15ULL);
  z = (z ^ (z >> 30)) * 0xBF58476D1CE4E5B9ULL;
  z = (z ^ (z >> 27)) * 0x94D049BB133111EBULL;
  return z ^ (z >> 31);
}
inline uint64_t mix2(uint64_t a, uint64_t b) { uint64_t x = a * 0x9E3779B97F4A7C15ULL + b; return splitmix(x); }

}  // namespace hist
