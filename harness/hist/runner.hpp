// History interpreter: executes scripts against the real library through the C shim and judges
// every step with oracles that do not come from the library.
#pragma once
#include "history.hpp"
#include "../shim.h"
#include "../ref/gf.hpp"
#include "../ref/rs_ref.hpp"
#include "../ref/rfc5170_ref.hpp"
#include "../ref/gf2.hpp"
#ifndef VERIF_NOSAN
#include "../alloc_track.hpp"
#endif
#include <map>
#include <set>
#include <memory>
#include <algorithm>
#include <functional>

namespace hist {

// ---------------------------------------------------------------------------------------------
// oracle identifiers
enum : uint32_t {
  O_SOUND = 1u << 0,   // C01
  O_MDS = 1u << 1,     // C02
  O_ML = 1u << 2,      // C03
  O_PEEL = 1u << 3,    // C04
  O_CODE = 1u << 4,    // C05
  O_ENC = 1u << 5,     // C06
  O_MEM = 1u << 6,     // C07
  O_LEAK = 1u << 7,    // C08
  O_PARAM = 1u << 8,   // C09
  O_STATUS = 1u << 9,  // C10
  O_CB = 1u << 10,     // C11
  O_INDEP = 1u << 11,  // C12
  O_LASTNULL = 1u << 12,  // C15
  O_2D = 1u << 13,     // C16
};
inline const char* oracle_name(uint32_t o) {
  switch (o) {
    case O_SOUND: return "SOUND"; case O_MDS: return "MDS"; case O_ML: return "ML"; case O_PEEL: return "PEEL";
    case O_CODE: return "CODE"; case O_ENC: return "ENC"; case O_MEM: return "MEM"; case O_LEAK: return "LEAK";
    case O_PARAM: return "PARAM"; case O_STATUS: return "STATUS"; case O_CB: return "CB"; case O_INDEP: return "INDEP";
    case O_LASTNULL: return "LASTNULL"; case O_2D: return "2D";
  }
  return "?";
}
inline const char* oracle_prop(uint32_t o) {
  switch (o) {
    case O_SOUND: return "C01"; case O_MDS: return "C02"; case O_ML: return "C03"; case O_PEEL: return "C04";
    case O_CODE: return "C05"; case O_ENC: return "C06"; case O_MEM: return "C07"; case O_LEAK: return "C08";
    case O_PARAM: return "C09"; case O_STATUS: return "C10"; case O_CB: return "C11"; case O_INDEP: return "C12";
    case O_LASTNULL: return "C15"; case O_2D: return "C16";
  }
  return "?";
}

// case features (non-triviality rules and class histograms are computed from these)
enum : uint64_t {
  F_DECODED = 1ull << 0,        // >=1 source symbol decoded (not received) and handed back
  F_CHAIN2 = 1ull << 1,         // peeling chain of length >= 2 produced a source
  F_ML_NEEDED = 1ull << 2,      // finish called while peeling closure lacks a source
  F_ML_SOLVED = 1ull << 3,      // ... and the system was solvable
  F_UNSOLV_GEK = 1ull << 4,     // >= k received and not recoverable
  F_LT_K = 1ull << 5,           // fewer than k distinct symbols
  F_ALLRECV = 1ull << 6,        // all sources received
  F_CB = 1ull << 7,             // source callback invoked
  F_CB_NULL = 1ull << 8,        // source callback returned NULL at least once
  F_EARLY_REL = 1ull << 9,      // decoder released before completion / encoder before all repairs
  F_FIN_COMPLETE = 1ull << 10,  // finish called when already complete
  F_DUP = 1ull << 11,           // duplicate submission
  F_AVAIL = 1ull << 12,         // set_available_symbols path
  F_RS_DECODE = 1ull << 13,     // RS matrix decode happened (>=1 repair used)
  F_ENC_NULLSLOT = 1ull << 14,  // encoder NULL output slot
  F_ENC_DEP2 = 1ull << 15,      // built repair depends on >= 2 sources, payload non-zero
  F_COMPLETE = 1ull << 16,      // decoding completed
  F_FINISH = 1ull << 17,        // finish called
  F_IT_DECODED = 1ull << 18,    // source decoded by iterative decoding
  F_GE_DECODED = 1ull << 19,    // source decoded by Gaussian elimination (not by peeling)
  F_REJECTED = 1ull << 20,      // configuration rejected
  F_BADCALL = 1ull << 21,       // a deliberately wrong call was made
  F_LASTNULL = 1ull << 22,      // last-symbol-null flag true
  F_MULTI = 1ull << 23,         // >= 2 sessions alive with an interleaved step
  F_EXTRA = 1ull << 24,         // reference construction used the extra-entries or no-choice branch
  F_REPCB = 1ull << 25,         // repair callback registered
  F_BOUNDARY = 1ull << 26,      // configuration at limit / limit+-1
  F_UNCONF_REL = 1ull << 27,    // released without (successful) configuration
  F_MIDDECODE_REL = 1ull << 28, // released with >=1 symbol submitted and not complete
};

struct Fail { uint32_t oracle; std::string sig, msg; };

struct Ctx {
  uint32_t enabled = 0;      // oracle(s) whose failure is a violation for this check
  std::vector<Fail> fails;   // failures of enabled oracles
  std::vector<Fail> notes;   // failures of other oracles (reported by their own property's check)
  bool stop = false;
  uint64_t features = 0;
  std::map<std::string, uint64_t> counters;
  bool want_trace = false;
  bool check_code = false;   // C05: compare the session's parity-check matrix with the reference (white-box probe)
  uint32_t cycle_limit_n = 100000;  // configurations with more symbols are configured and released only
  uint64_t api_calls = 0;
  uint64_t skipped_steps = 0;
  bool leak_overflow = false;
  std::set<std::string> known_sigs;  // open known findings: excluded by construction, counted
  bool hit_known = false;
  void fail(uint32_t oracle, const std::string& sig, const std::string& msg) {
    Fail f{oracle, std::string(oracle_prop(oracle)) + "/" + oracle_name(oracle) + "/" + sig, msg};
    if (known_sigs.count(f.sig)) { counters["excluded_by_known_finding:" + f.sig]++; hit_known = true; return; }
    if (oracle & enabled) { fails.push_back(f); stop = true; }
    else if (notes.size() < 8) notes.push_back(f);
  }
};

// ---------------------------------------------------------------------------------------------
// configuration validity exactly as C09 states it
inline uint32_t effective_L(const Config& c) {
  if (c.payload != PAY_IDENTITY) return c.L;
  if (c.codec == CODEC_RS8) return c.k;
  if (c.codec == CODEC_RSM) return c.m == 4 ? (c.k + 1) / 2 : c.k;
  return (c.k + 7) / 8;
}
// MAX_K / MAX_N of the LDPC-Staircase codec as the library itself advertises them (OF_CTRL_GET_MAX_K/N on a
// fresh session), so that a tree built with another profile is judged against its own limits
inline void ldpc_limits(uint32_t* mk, uint32_t* mn) {
  static uint32_t k = 0, n = 0;
  if (!k) {
    void* ses = nullptr; k = 50000; n = 50000;
    if (sh_create(&ses, CODEC_LDPC, ROLE_DEC) == 0 && ses) {
      uint32_t a = 0, b = 0;
      if (sh_get_ctrl_u32(ses, 1, &a) == 0 && sh_get_ctrl_u32(ses, 2, &b) == 0 && a && b) { k = a; n = b; }
      sh_release(ses);
    }
  }
  *mk = k; *mn = n;
}
// 1 valid, 0 invalid, -1 not specified by the properties (2D parity)
inline int cfg_valid(const Config& c) {
  uint32_t ldpc_max_k, ldpc_max_n; ldpc_limits(&ldpc_max_k, &ldpc_max_n);
  uint64_t n = (uint64_t)c.k + c.r;
  uint32_t L = effective_L(c);
  switch (c.codec) {
    case CODEC_RS8: return (c.k >= 1 && c.r >= 1 && n <= 255 && L >= 1) ? 1 : 0;
    case CODEC_RSM: {
      if (c.m != 4 && c.m != 8) return 0;
      uint32_t fs = (1u << c.m) - 1;
      return (c.k >= 1 && c.r >= 1 && n <= fs && L >= 1) ? 1 : 0;
    }
    case CODEC_LDPC:
      return (c.k >= 1 && c.k <= ldpc_max_k && c.r >= 1 && n <= ldpc_max_n && L >= 1 && c.N1 >= 3 && c.N1 <= c.r &&
              c.seed >= 1 && c.seed <= 0x7FFFFFFEu) ? 1 : 0;
    default: return -1;
  }
}

inline std::string cfg_invalid_reason(const Config& c) {
  uint64_t n = (uint64_t)c.k + c.r; uint32_t L = effective_L(c);
  std::string cn = c.codec == CODEC_RS8 ? "RS8" : c.codec == CODEC_RSM ? "RSM" : c.codec == CODEC_LDPC ? "LDPC" : "P2D";
  uint32_t lk, ln; ldpc_limits(&lk, &ln);
  uint32_t lim = c.codec == CODEC_LDPC ? ln : (c.codec == CODEC_RSM && c.m == 4) ? 15 : 255;
  if (c.codec == CODEC_RSM && c.m != 4 && c.m != 8) return cn + "/m";
  if (c.k == 0) return cn + "/k=0";
  if (c.r == 0) return cn + "/r=0";
  if (L == 0) return cn + "/L=0";
  if (c.k > lim) return cn + "/k>max";
  if (n > lim) return cn + "/n>max";
  if (c.codec == CODEC_LDPC && (c.N1 < 3 || c.N1 > c.r)) return cn + "/N1";
  if (c.codec == CODEC_LDPC && (c.seed < 1 || c.seed > 0x7FFFFFFEu)) return cn + "/seed";
  return cn + "/?";
}

// ---------------------------------------------------------------------------------------------
// reference code + codeword for one configuration
struct CodeRef {
  Config cfg;
  uint32_t k = 0, r = 0, n = 0, L = 0;
  bool binary = false;      // has parity-check equations (LDPC, 2D)
  ref::Equations eqs;       // equations over ESIs
  ref::LdpcCode ldpc;
  std::vector<std::vector<uint32_t>> rows_of;  // per symbol: equations it appears in
  std::vector<std::vector<uint8_t>> cw;        // codeword; RS repair symbols filled lazily
  bool ref_last_null = false;  // reference: every source column has even weight
  int rsm = 8;

  static void fill_payload(const Config& c, uint32_t L, std::vector<std::vector<uint8_t>>& src) {
    src.assign(c.k, std::vector<uint8_t>(L, 0));
    for (uint32_t i = 0; i < c.k; i++) {
      switch (c.payload) {
        case PAY_IDENTITY:
          if (c.codec == CODEC_RS8 || (c.codec == CODEC_RSM && c.m != 4)) { if (i < L) src[i][i] = 1; }
          else if (c.codec == CODEC_RSM) { if (i / 2 < L) src[i][i / 2] = (i % 2 == 0) ? 0x10 : 0x01; }
          else { if (i / 8 < L) src[i][i / 8] = (uint8_t)(1u << (i % 8)); }
          break;
        case PAY_ZERO: break;
        case PAY_ONES: for (auto& b : src[i]) b = 0xFF; break;
        default: {
          uint64_t x = mix2(c.pseed, i);
          for (uint32_t b = 0; b < L; b += 8) {
            uint64_t v = splitmix(x);
            for (uint32_t q = 0; q < 8 && b + q < L; q++) src[i][b + q] = (uint8_t)(v >> (8 * q));
          }
        }
      }
    }
  }
  void index_rows() {
    rows_of.assign(n, {});
    for (uint32_t i = 0; i < eqs.size(); i++) for (uint32_t s : eqs[i]) rows_of[s].push_back(i);
  }
  // RS / LDPC from the references
  void build(const Config& c) {
    cfg = c; k = c.k; r = c.r; n = k + r; L = effective_L(c);
    std::vector<std::vector<uint8_t>> src;
    fill_payload(c, L, src);
    cw.assign(n, {});
    for (uint32_t i = 0; i < k; i++) cw[i] = src[i];
    if (c.codec == CODEC_LDPC) {
      binary = true;
      ldpc = ref::ldpc_build(k, r, c.N1, c.seed);
      eqs.resize(r);
      for (uint32_t i = 0; i < r; i++) eqs[i] = ldpc.row_all(i);
      auto rep = ref::ldpc_encode(ldpc, src, L);
      for (uint32_t i = 0; i < r; i++) cw[k + i] = rep[i];
      ref_last_null = true;
      for (uint32_t w : ldpc.src_col_weight) if (w & 1) ref_last_null = false;
      index_rows();
    } else {
      rsm = (c.codec == CODEC_RS8) ? 8 : (int)c.m;
    }
  }
  const std::vector<uint8_t>& sym(uint32_t esi) {
    if (cw[esi].empty() && L > 0) {
      std::vector<std::vector<uint8_t>> src(cw.begin(), cw.begin() + k);
      cw[esi] = ref::rs_encode(rsm, k, src, esi, L);
    }
    return cw[esi];
  }
};

// ---------------------------------------------------------------------------------------------
struct TraceEnt { uint64_t h; std::string brief; };

struct Sess;
// set by run_history: lets a callback of session `id` make another session take its next step (nested call)
static std::function<void(int)>* g_reenter_hook = nullptr;
static void* hist_src_cb(void* ctx, uint32_t size, uint32_t esi);
static void* hist_rep_cb(void* ctx, uint32_t size, uint32_t esi);

static const int ST_OK = 0, ST_FAILURE = 1;

struct Sess {
  const Script& sc;
  int id;
  Ctx& cx;
  std::shared_ptr<CodeRef> code;  // set at successful configuration (or injected for 2D)
  std::shared_ptr<CodeRef> injected;

  void* ses = nullptr;
  bool created = false, configured = false, cfg_ok = false, released = false, rejected = false;
  uint32_t k = 0, r = 0, n = 0, L = 0;
  bool src_cb_set = false, rep_cb_set = false;
  bool is_dec_role() const { return sc.role & ROLE_DEC; }
  bool is_enc_role() const { return sc.role & ROLE_ENC; }
  int dir = 0;  // bit 0: has encoded, bit 1: has decoded
  // one session driven in both directions: only for the Reed-Solomon codecs with the combined role (encoding
  // uses the generator matrix, decoding the received-symbol table; the LDPC decoder consumes the matrix the
  // encoder needs, so mixing is meaningless there)
  bool mixed_ok() const { return (sc.cfg.codec == CODEC_RS8 || sc.cfg.codec == CODEC_RSM) && sc.role == ROLE_BOTH; }

  // application buffers
  struct Buf { uint8_t* base = nullptr; uint32_t off = 0; uint8_t* p() const { return base ? base + off : nullptr; } };
  std::vector<Buf> buf[3];   // 0: symbols as received / encoder sources, 1: duplicates (equal content), 2: encoder output buffers
  void** avail_tab = nullptr;  // exact n entries
  void** src_tab = nullptr;    // exact k entries
  void** enc_tab = nullptr;    // exact n entries
  std::vector<void*> enc_shadow;
  std::vector<char> enc_built, enc_lib_alloc;

  // decoder model
  std::vector<char> submitted;
  uint32_t ndistinct = 0, nsrc_recv = 0;
  std::vector<void*> ptr_must;
  bool used_new = false, used_avail = false, finished = false, ever_complete = false;
  int last_null = -1;
  // incremental peeling closure (binary codes)
  std::vector<char> closure; std::vector<int> depth; std::vector<uint32_t> unk; uint32_t closure_src = 0;
  int max_src_chain = 0;

  // callbacks
  struct CbRec { uint64_t call; uint32_t esi, size; void* ret; bool rep; };
  std::vector<CbRec> cblog;
  std::vector<void*> cb_bufs;
  uint64_t cb_count = 0;
  uint64_t cur_call = 0;

  std::vector<TraceEnt> trace;
  size_t step_idx = 0;

  Sess(const Script& s, int id_, Ctx& c) : sc(s), id(id_), cx(c) {}
  Sess(const Sess&) = delete;
  ~Sess() {
    if (created && !released) { do_release(true); }
    for (int w = 0; w < 3; w++) for (auto& b : buf[w]) free(b.base);
    free(avail_tab); free(src_tab);
    if (enc_tab) {
      for (uint32_t i = k; i < n; i++) if (enc_tab[i] && enc_lib_alloc[i]) free(enc_tab[i]);
      free(enc_tab);
    }
    for (void* p : cb_bufs) free(p);
  }

  // -------- helpers
  template <class F> int call(F f) {
#ifndef VERIF_NOSAN
    at::at_tag = id; at::at_call = (int)cx.api_calls;
#endif
    cur_call = cx.api_calls++;
    int st = f();
    return st;
  }
  uint64_t cb_hash_this_call() const {
    std::vector<uint64_t> v;
    for (const CbRec& q : cblog) if (q.call == cur_call) v.push_back(((uint64_t)q.esi << 33) | ((uint64_t)q.size << 1) | (q.rep ? 1 : 0));
    std::sort(v.begin(), v.end());
    uint64_t h = v.size();
    for (uint64_t x : v) h = mix2(h, x);
    return h;
  }
  void tr(const std::string& brief, uint64_t h) {
    if (cx.want_trace) trace.push_back(TraceEnt{mix2(h, hash_text(brief)), brief});
  }
  Buf& get_buf(uint32_t esi, int which) {
    if (buf[which].size() < n) buf[which].resize(n);
    Buf& b = buf[which][esi];
    if (!b.base) {
      b.off = (uint32_t)(mix2(sc.align, esi * 2 + which) & 7);
      b.base = (uint8_t*)malloc(b.off + (size_t)L);
      memset(b.base, 0xC5, b.off);
      const std::vector<uint8_t>& v = code->sym(esi);
      if (L) memcpy(b.base + b.off, v.data(), L);
    }
    return b;
  }
  // application memory must be exactly as the application left it
  void check_app_memory(const char* where, bool force = false) {
    if (!code) return;
    if (!force && (uint64_t)n * L > (1u << 15) && (cx.api_calls & 15)) return;
    for (int w = 0; w < 3; w++)
      for (uint32_t e = 0; e < buf[w].size(); e++) {
        Buf& b = buf[w][e];
        if (!b.base) continue;
        for (uint32_t i = 0; i < b.off; i++)
          if (b.base[i] != 0xC5) { cx.fail(O_MEM, "canary_before_buffer", std::string(where) + ": byte before application buffer esi=" + std::to_string(e) + " modified"); return; }
        if (w == 2) continue;  // encoder output buffers are written by design
        if (L && memcmp(b.p(), code->sym(e).data(), L) != 0) {
          cx.fail(O_MEM, (dir & 1) && e < k ? "encoder_source_modified" : "received_symbol_modified",
                  std::string(where) + ": application buffer esi=" + std::to_string(e) + " content changed");
          return;
        }
      }
    if (enc_tab)
      for (uint32_t i = 0; i < n; i++)
        if (enc_tab[i] != enc_shadow[i]) { cx.fail(O_MEM, "encoder_table_entry_changed", std::string(where) + ": encoding_symbols_tab[" + std::to_string(i) + "] changed"); return; }
  }

  // -------- incremental peeling model
  void closure_init() {
    closure.assign(n, 0); depth.assign(n, 0); unk.assign(code->eqs.size(), 0); closure_src = 0;
    for (size_t i = 0; i < code->eqs.size(); i++) unk[i] = (uint32_t)code->eqs[i].size();
  }
  void make_known(uint32_t s, int d) {
    std::vector<std::pair<uint32_t, int>> stack{{s, d}};
    while (!stack.empty()) {
      auto [x, dx] = stack.back(); stack.pop_back();
      if (closure[x]) continue;
      closure[x] = 1; depth[x] = dx;
      if (x < k) { closure_src++; if (dx > max_src_chain) max_src_chain = dx; }
      for (uint32_t row : code->rows_of[x]) {
        if (--unk[row] == 1) {
          uint32_t last = 0; int dd = 0; bool found = false;
          for (uint32_t y : code->eqs[row]) { if (!closure[y]) { last = y; found = true; } else dd = std::max(dd, depth[y]); }
          if (found) stack.push_back({last, dd + 1});
        }
      }
    }
  }
  std::vector<char> known_set() const {  // received (+ injected null symbol)
    std::vector<char> kn(n, 0);
    for (uint32_t i = 0; i < n; i++) kn[i] = submitted[i];
    if (last_null == 1) kn[n - 1] = 1;
    return kn;
  }

  // -------- steps
  void do_create() {
    int st = call([&] { return sh_create_v(&ses, sc.cfg.codec, sc.role, sc.verb); });
    created = (ses != nullptr);
    if (st != ST_OK || !ses) cx.fail(O_PARAM, "create_failed", "of_create_codec_instance returned " + std::to_string(st));
    tr("create", (uint64_t)st);
  }

  void step_setcb(const Step& st) {
    if (!created || released) { cx.skipped_steps++; return; }
    bool ws = st.flag & 1, wr = st.flag & 2;
    if (!ws && !wr) { cx.skipped_steps++; return; }
    int s = call([&] { return sh_set_cb(ses, ws ? hist_src_cb : nullptr, wr ? hist_rep_cb : nullptr, this); });
    if (s != ST_OK) cx.fail(O_STATUS, "set_callback_not_ok", "of_set_callback_functions returned " + std::to_string(s));
    src_cb_set = ws; rep_cb_set = wr;
    if (wr) cx.features |= F_REPCB;
    tr("setcb", (uint64_t)s);
  }

  // of_set_control_parameter(OF_RS_CTRL_SET_FIELD_SIZE): RS-2^m only; m in {4,8} must be accepted, anything else refused;
  // whatever was set here, of_set_fec_parameters decides with the m it is given (C09)
  void step_setctrl(const Step& st) {
    if (!created || released || configured || sc.cfg.codec != CODEC_RSM) { cx.skipped_steps++; return; }
    uint32_t m = st.flag;
    int s = call([&] { return sh_set_ctrl_field_size(ses, m); });
    bool ok_m = (m == 4 || m == 8);
    if (ok_m && s != ST_OK) cx.fail(O_PARAM, "set_field_size_refused", "OF_RS_CTRL_SET_FIELD_SIZE with m=" + std::to_string(m) + " returned " + std::to_string(s));
    if (!ok_m && s == ST_OK) cx.fail(O_PARAM, "set_field_size_accepted_bad_m", "OF_RS_CTRL_SET_FIELD_SIZE with m=" + std::to_string(m) + " returned OK");
    tr("setctrl " + std::to_string(m), (uint64_t)s);
  }

  void step_setparams() {
    if (!created || released || configured) { cx.skipped_steps++; return; }
    configured = true;
    const Config& c = sc.cfg;
    uint32_t Leff = effective_L(c);
    int expect = cfg_valid(c);
    int s = call([&] { return sh_set_params(ses, c.codec, c.k, c.r, Leff, c.m, c.N1, c.seed); });
    tr("setparams", (uint64_t)s);
    if (expect == 1 && s != ST_OK)
      cx.fail(O_PARAM, "valid_config_rejected", "configuration inside the advertised limits rejected, status " + std::to_string(s));
    if (expect == 0 && s == ST_OK)
      cx.fail(O_PARAM, "invalid_config_accepted/" + cfg_invalid_reason(c), "configuration outside the advertised limits accepted");
    if (s != ST_OK) { rejected = true; cx.features |= F_REJECTED; return; }
    if (expect == 0) { rejected = true; return; }  // accepted although invalid: nothing more is promised; release only
    // feasibility of a full cycle
    if ((uint64_t)(c.k + c.r) * (uint64_t)Leff > (64u << 20) || (uint64_t)c.k + c.r > cx.cycle_limit_n) { rejected = true; cx.counters["accepted_config_only"]++; return; }
    cfg_ok = true;
    k = c.k; r = c.r; n = k + r; L = Leff;
    if (injected) code = injected;
    else if (c.codec == CODEC_P2D) { cfg_ok = false; rejected = true; return; }  // 2D needs an injected code
    else { code = std::make_shared<CodeRef>(); code->build(c); }
    submitted.assign(n, 0); ptr_must.assign(k, nullptr);
    if (code->binary) closure_init();
    if (c.codec == CODEC_LDPC) {
      int v = 0;
      int s2 = call([&] { return sh_get_last_null(ses, &v); });
      if (s2 != ST_OK) cx.fail(O_LASTNULL, "ctrl_query_failed", "IS_LAST_SYMBOL_NULL query returned " + std::to_string(s2));
      last_null = v ? 1 : 0;
      tr("lastnull", (uint64_t)last_null);
      if (last_null == 1) {
        cx.features |= F_LASTNULL;
        if (!code->ref_last_null)
          cx.fail(O_LASTNULL, "flag_true_but_odd_column", "IS_LAST_SYMBOL_NULL true but the RFC 5170 matrix has a source column of odd weight");
        const std::vector<uint8_t>& last = code->sym(n - 1);
        for (uint8_t b : last) if (b) { cx.fail(O_LASTNULL, "flag_true_but_symbol_nonzero", "IS_LAST_SYMBOL_NULL true but the reference last repair symbol is not zero"); break; }
        if (is_dec_role()) make_known(n - 1, 0);
      }
      if (code->ldpc.extra_added || code->ldpc.uneven) cx.features |= F_EXTRA;
      if (cx.check_code) probe_code();
    }
  }

  // white-box observation of the code actually held by the session (optional probe)
  void probe_code() {
    if (!shp_ldpc_available()) { cx.counters["probe_unavailable"]++; return; }
    size_t want = 0;
    for (auto& e : code->eqs) want += e.size();
    std::vector<uint32_t> rows(want + 16), esis(want + 16);
    long got = shp_session_pchk(ses, rows.data(), esis.data(), (long)rows.size());
    if (got < 0) { cx.counters["probe_no_matrix"]++; return; }
    cx.counters["probe_session_matrix"]++;
    auto cmp = [&](long cnt, const char* what) {
      if ((size_t)cnt != want) { cx.fail(O_CODE, std::string(what) + "_entry_count", std::string(what) + ": " + std::to_string(cnt) + " entries, RFC 5170 reference has " + std::to_string(want)); return; }
      std::vector<std::set<uint32_t>> got_rows(r);
      for (long i = 0; i < cnt; i++) { if (rows[i] >= r || esis[i] >= n) { cx.fail(O_CODE, std::string(what) + "_entry_out_of_range", "entry out of range"); return; } got_rows[rows[i]].insert(esis[i]); }
      for (uint32_t i = 0; i < r; i++) {
        std::set<uint32_t> w(code->eqs[i].begin(), code->eqs[i].end());
        if (w != got_rows[i]) { cx.fail(O_CODE, std::string(what) + "_row_differs", std::string(what) + ": equation " + std::to_string(i) + " differs from the RFC 5170 reference"); return; }
      }
    };
    cmp(got, "session_matrix");
    // third observation: the exported constructor called directly. It is a library call of its own (it advances whatever the
    // construction counts across calls), so only sessions with an odd alignment seed make it: observing must not be the
    // only way state moves
    if ((sc.align & 1) == 0) return;
    int extra = 0;
    long got2 = shp_ldpc_constructor(k, r, sc.cfg.N1, sc.cfg.seed, rows.data(), esis.data(), (long)rows.size(), &extra);
    if (got2 >= 0) { cx.counters["probe_constructor"]++; cmp(got2, "constructor"); }
  }

  // encoder ------------------------------------------------------------------
  void enc_prepare() {
    if (enc_tab) return;
    enc_tab = (void**)malloc(sizeof(void*) * n);
    enc_shadow.assign(n, nullptr); enc_built.assign(n, 0); enc_lib_alloc.assign(n, 0);
    for (uint32_t i = 0; i < n; i++) enc_tab[i] = nullptr;
    for (uint32_t i = 0; i < k; i++) { enc_tab[i] = get_buf(i, 0).p(); enc_shadow[i] = enc_tab[i]; }
  }
  void step_build(const Step& st) {
    if (!cfg_ok || released || !is_enc_role() || ((dir & 2) && !mixed_ok())) { cx.skipped_steps++; return; }
    uint32_t esi = st.esi;
    if (esi < k || esi >= n) { cx.skipped_steps++; return; }
    if (sc.cfg.codec == CODEC_LDPC && esi > k && !(enc_built.size() && enc_built[esi - 1])) { cx.skipped_steps++; return; }
    dir |= 1;
    enc_prepare();
    bool nullslot = false;
    if (!enc_tab[esi]) {
      if (st.flag & 1) { nullslot = true; cx.features |= F_ENC_NULLSLOT; }
      else {
        Buf& b = get_buf(esi, 2);
        if (L) memset(b.p(), 0xAA, L);
        enc_tab[esi] = b.p(); enc_shadow[esi] = b.p();
      }
    }
    int s = call([&] { return sh_build(ses, enc_tab, esi); });
    if (s != ST_OK) { cx.fail(O_ENC, "build_not_ok", "of_build_repair_symbol(esi=" + std::to_string(esi) + ") returned " + std::to_string(s)); tr("build", s); return; }
    void* out = enc_tab[esi];
    if (!out) { cx.fail(O_ENC, "null_slot_not_allocated", "NULL output slot still NULL after of_build_repair_symbol"); return; }
    if (nullslot) {
      enc_shadow[esi] = out; enc_lib_alloc[esi] = 1;
#ifndef VERIF_NOSAN
      const at::Ent* e = at::find(out);
      if (!e || e->size < L) cx.fail(O_ENC, "null_slot_bad_allocation", "symbol stored in NULL slot is not a library allocation of >= L bytes");
#endif
    }
    enc_built[esi] = 1;
    if (last_null == 1 && esi == n - 1)
      for (uint32_t b = 0; b < L; b++) if (((uint8_t*)out)[b]) { cx.fail(O_LASTNULL, "encoder_last_symbol_nonzero", "IS_LAST_SYMBOL_NULL true but the encoder's last repair symbol is not all zero"); break; }
    check_app_memory("build", true);
    uint64_t hh = fnv1a(out, L);
    tr("build " + std::to_string(esi), hh);
    if (!code->cw.empty()) {
      const std::vector<uint8_t>& want = code->sym(esi);
      if (L && memcmp(out, want.data(), L) != 0) {
        uint32_t b = 0; while (b < L && ((uint8_t*)out)[b] == want[b]) b++;
        if (sc.cfg.codec == CODEC_P2D) cx.fail(O_2D, "encoder_violates_check", "2D repair esi=" + std::to_string(esi) + " is not the XOR of the sources of its check (byte " + std::to_string(b) + ")");
        else cx.fail(O_ENC, "repair_symbol_wrong", "repair esi=" + std::to_string(esi) + " differs from the canonical codeword at byte " + std::to_string(b));
      }
      // non-triviality: depends on >= 2 sources and payload not all-zero
      if (sc.cfg.payload != PAY_ZERO) cx.features |= F_ENC_DEP2;
    }
  }

  // decoder ------------------------------------------------------------------
  bool dec_ready() {
    if (!cfg_ok || released || !is_dec_role() || ((dir & 1) && !mixed_ok())) return false;
    dir |= 2;
    if (!src_tab) src_tab = (void**)malloc(sizeof(void*) * k);
    return true;
  }
  bool rs() const { return sc.cfg.codec == CODEC_RS8 || sc.cfg.codec == CODEC_RSM; }
  bool model_complete_before_rs() const { return ndistinct >= k; }

  void note_submission(uint32_t esi, void* p) {
    bool known_before;
    if (rs()) known_before = used_avail ? false : model_complete_before_rs();
    else known_before = closure[esi];
    if (submitted[esi]) cx.features |= F_DUP;
    if (!submitted[esi]) {
      if (esi < k && !known_before) ptr_must[esi] = p;
      submitted[esi] = 1; ndistinct++;
      if (esi < k) nsrc_recv++;
    }
    if (code->binary) make_known(esi, 0);
  }

  void step_new(const Step& st) {
    if (!dec_ready() || used_avail || finished) { cx.skipped_steps++; return; }
    uint32_t esi = st.esi;
    if (esi >= n) { cx.skipped_steps++; return; }
    used_new = true;
    Buf& b = get_buf(esi, (st.flag & 1) && submitted[esi] ? 1 : 0);
    // model first (uses state before the call)
    bool rs_triggers_decode = rs() && !submitted[esi] && ndistinct + 1 == k && !(nsrc_recv + (esi < k ? 1 : 0) == k);
    note_submission(esi, b.p());
    int s = call([&] { return sh_decode_new(ses, b.p(), esi); });
    if (s != ST_OK) cx.fail(O_STATUS, "decode_with_new_symbol_not_ok", "of_decode_with_new_symbol(esi=" + std::to_string(esi) + ") returned " + std::to_string(s));
    if (rs_triggers_decode) cx.features |= F_RS_DECODE;
    check_app_memory("new");
    tr("new " + std::to_string(esi), mix2((uint64_t)s, cb_hash_this_call()));
  }

  void step_avail(const Step& st) {
    if (!dec_ready() || used_avail || used_new || finished) { cx.skipped_steps++; return; }
    used_avail = true; cx.features |= F_AVAIL;
    if (!avail_tab) avail_tab = (void**)malloc(sizeof(void*) * n);
    for (uint32_t i = 0; i < n; i++) avail_tab[i] = nullptr;
    std::vector<uint32_t> es;
    for (uint32_t e : st.set) if (e < n) es.push_back(e);
    std::sort(es.begin(), es.end()); es.erase(std::unique(es.begin(), es.end()), es.end());
    for (uint32_t e : es) { Buf& b = get_buf(e, 0); avail_tab[e] = b.p(); note_submission(e, b.p()); }
    int s = call([&] { return sh_set_avail(ses, avail_tab); });
    if (s != ST_OK) cx.fail(O_STATUS, "set_available_symbols_not_ok", "of_set_available_symbols returned " + std::to_string(s));
    check_app_memory("avail");
    tr("avail " + std::to_string(es.size()), mix2((uint64_t)s, cb_hash_this_call()));
  }

  void step_finish() {
    if (!dec_ready() || finished) { cx.skipped_steps++; return; }
    finished = true; cx.features |= F_FINISH;
    bool complete_before = false;
    // expected outcome from the references (state before the call)
    int expect_complete = -1;
    if (rs()) expect_complete = ndistinct >= k ? 1 : 0;
    else if (code->binary) {
      complete_before = (closure_src == k);
      if (complete_before) { expect_complete = 1; cx.features |= F_FIN_COMPLETE; }
      else {
        ref::Determined d = ref::determinability(code->eqs, known_set());
        bool all = true;
        for (uint32_t i = 0; i < k; i++) if (!d.det[i]) { all = false; break; }
        expect_complete = all ? 1 : 0;
        cx.features |= F_ML_NEEDED;
        if (all) cx.features |= F_ML_SOLVED;
        else if (ndistinct >= k) cx.features |= F_UNSOLV_GEK;
        if (sc.cfg.codec == CODEC_LDPC) {
          // self-check of the oracle: for the staircase, "all sources determined" coincides with
          // full column rank of H restricted to the unknown columns
          bool fullrank = (d.rank == d.unknowns);
          if (fullrank != all) cx.counters["oracle_selfcheck_rank_vs_determined_differs"]++;
        }
      }
    }
    if (rs() && ndistinct >= k && ever_complete) cx.features |= F_FIN_COMPLETE;
    int s = call([&] { return sh_finish(ses); });
    uint64_t fin_cb = cb_hash_this_call();
    check_app_memory("finish");
    int c = call([&] { return sh_is_complete(ses); });
    tr("finish", mix2((uint64_t)s * 2 + c, fin_cb));
    if (s != ST_OK && s != ST_FAILURE)
      cx.fail(O_STATUS, "finish_returned_error", "of_finish_decoding returned " + std::to_string(s) + " (neither OK nor FAILURE)");
    else if (s == ST_OK && !c) cx.fail(O_STATUS, "finish_OK_but_incomplete", "of_finish_decoding returned OK but of_is_decoding_complete is false");
    else if (s == ST_FAILURE && c) cx.fail(O_STATUS, "finish_FAILURE_but_complete", "of_finish_decoding returned FAILURE but of_is_decoding_complete is true");
    if (expect_complete >= 0 && c != expect_complete) {
      if (rs()) cx.fail(O_MDS, c ? "complete_with_fewer_than_k" : "not_complete_with_k_symbols",
                        "after finish: complete=" + std::to_string(c) + " with " + std::to_string(ndistinct) + " distinct symbols, k=" + std::to_string(k));
      else if (sc.cfg.codec == CODEC_LDPC)
        cx.fail(O_ML, c ? "complete_but_not_determined" : "determined_but_not_complete",
                "after finish: complete=" + std::to_string(c) + " but the received set " + (expect_complete ? "determines" : "does not determine") + " all sources");
      else cx.fail(O_2D, c ? "complete_but_not_determined" : "determined_but_not_complete",
                   "2D after finish: complete=" + std::to_string(c) + " expected " + std::to_string(expect_complete));
    }
    if (rs() && ndistinct < k && s != ST_FAILURE)
      cx.fail(O_MDS, "finish_not_FAILURE_below_k", "of_finish_decoding returned " + std::to_string(s) + " with fewer than k symbols");
    if (rs() && ndistinct >= k && s != ST_OK)
      cx.fail(O_MDS, "finish_not_OK_with_k", "of_finish_decoding returned " + std::to_string(s) + " with >= k symbols");
    if (c) { ever_complete = true; }
  }

  // query + all state oracles
  // OF_CTRL_GET_MAX_K / MAX_N: the advertised limits (C09); harmless to ask at any time after configuration
  void query_limits() {
    if (!cfg_ok || released) return;
    uint32_t mk = 0, mn = 0;
    int s1 = call([&] { return sh_get_ctrl_u32(ses, 1, &mk); });
    int s2 = call([&] { return sh_get_ctrl_u32(ses, 2, &mn); });
    uint32_t wk = 0, wn = 0;
    switch (sc.cfg.codec) {
      case CODEC_RS8: wk = wn = 255; break;
      case CODEC_RSM: wk = wn = (1u << sc.cfg.m) - 1; break;
      case CODEC_LDPC: ldpc_limits(&wk, &wn); break;
      default: return;
    }
    if (s1 != ST_OK || s2 != ST_OK) cx.fail(O_PARAM, "limits_query_failed", "OF_CTRL_GET_MAX_K/N returned " + std::to_string(s1) + "/" + std::to_string(s2) + " on a configured session");
    else if (mk != wk || mn != wn) cx.fail(O_PARAM, "limits_differ_from_advertised", "MAX_K/MAX_N = " + std::to_string(mk) + "/" + std::to_string(mn) + ", the documented limits are " + std::to_string(wk) + "/" + std::to_string(wn));
    tr("limits", ((uint64_t)mk << 32) | mn);
  }
  // the answer belongs to the parameters: a session asked again later (after submissions, after decoding) must repeat it,
  // since an encoder with equal parameters - which never changes state that way - has to agree with it at any time
  void requery_last_null() {
    if (!cfg_ok || sc.cfg.codec != CODEC_LDPC || last_null < 0 || cx.stop) return;
    int v = 0;
    int s2 = call([&] { return sh_get_last_null(ses, &v); });
    cx.counters["lastnull_requeried"]++;
    if (s2 != ST_OK) { cx.fail(O_LASTNULL, "ctrl_query_failed", "IS_LAST_SYMBOL_NULL query on a configured session returned " + std::to_string(s2)); return; }
    if ((v ? 1 : 0) != last_null)
      cx.fail(O_LASTNULL, "answer_changed_during_session", "IS_LAST_SYMBOL_NULL was " + std::to_string(last_null) + " after configuration and is " + std::to_string(v ? 1 : 0) + " after " + std::to_string(ndistinct) + " submitted symbols");
    else if (ndistinct > 0) cx.counters["lastnull_requeried_after_submissions"]++;
  }

  void step_query(uint32_t flag, bool final_q = false) {
    if (flag & 4) { query_limits(); if (!(flag & 3)) return; }
    requery_last_null();
    if (!dec_ready()) { cx.skipped_steps++; return; }
    int c = -1;
    if (flag & 1) {
      c = call([&] { return sh_is_complete(ses); });
      if (ever_complete && !c) cx.fail(O_STATUS, "complete_reverted", "of_is_decoding_complete went from true back to false");
      if (c) { ever_complete = true; cx.features |= F_COMPLETE; }
      // expected completion
      if (rs()) {
        if (used_new || (!used_new && !used_avail)) {
          bool want = ndistinct >= k;
          if ((bool)c != want) cx.fail(O_MDS, c ? "complete_with_fewer_than_k" : "not_complete_with_k_symbols",
                                       "complete=" + std::to_string(c) + " with " + std::to_string(ndistinct) + " distinct symbols, k=" + std::to_string(k));
        } else if (used_avail && ndistinct < k && c)
          cx.fail(O_MDS, "complete_with_fewer_than_k", "complete with fewer than k symbols");
      } else if (sc.cfg.codec == CODEC_LDPC && !finished && !used_avail) {
        bool want = closure_src == k;
        if ((bool)c != want) cx.fail(O_PEEL, c ? "complete_but_closure_incomplete" : "closure_complete_but_not_reported",
                                     "complete=" + std::to_string(c) + " but peeling closure has " + std::to_string(closure_src) + "/" + std::to_string(k) + " sources");
      }
    }
    uint64_t th = 0;
    if (flag & 2) {
      for (uint32_t i = 0; i < k; i++) src_tab[i] = nullptr;
      int s = call([&] { return sh_get_src_tab(ses, src_tab); });
      th = (uint64_t)s;
      if (s == ST_OK) {
        uint32_t navail = 0; bool any_decoded = false;
        for (uint32_t i = 0; i < k; i++) {
          void* p = src_tab[i];
          th = mix2(th, p ? 1 : 0);
          if (!p) continue;
          navail++;
          const std::vector<uint8_t>& want = code->sym(i);
          if (L && memcmp(p, want.data(), L) != 0) {
            uint32_t b = 0; while (b < L && ((uint8_t*)p)[b] == want[b]) b++;
            cx.fail(O_SOUND, "wrong_source_symbol", "source symbol " + std::to_string(i) + " handed back differs from the encoded one at byte " + std::to_string(b));
            if (sc.cfg.codec == CODEC_P2D) cx.fail(O_2D, "wrong_source_symbol", "2D: wrong source symbol " + std::to_string(i));
          }
          th = mix2(th, fnv1a(p, L));
          bool is_app = (buf[0].size() > i && buf[0][i].p() == p) || (buf[1].size() > i && buf[1][i].p() == p);
          if (!is_app) any_decoded = true;
          if (ptr_must[i] && p != ptr_must[i])
            cx.fail(O_STATUS, "pointer_identity_lost", "source symbol " + std::to_string(i) + " was submitted while unknown but the table holds another pointer");
          // callback contract
          size_t ncb = 0; const CbRec* rec = nullptr;
          for (const CbRec& q : cblog) if (!q.rep && q.esi == i) { ncb++; rec = &q; }
          if (is_app) {
            if (ncb) cx.fail(O_CB, "callback_for_received_symbol", "callback invoked for source symbol " + std::to_string(i) + " which was received");
          } else if (src_cb_set) {
            if (ncb != 1) cx.fail(O_CB, ncb ? "callback_more_than_once" : "decoded_without_callback",
                                  "decoded source symbol " + std::to_string(i) + " caused " + std::to_string(ncb) + " callback calls");
            else {
              if (rec->size != L) cx.fail(O_CB, "callback_wrong_size", "callback size " + std::to_string(rec->size) + " != symbol length " + std::to_string(L));
              if (rec->ret && rec->ret != p) cx.fail(O_CB, "callback_buffer_not_used", "table entry of decoded symbol " + std::to_string(i) + " is not the buffer the callback returned");
#ifndef VERIF_NOSAN
              if (!rec->ret) {
                const at::Ent* e = at::find(p);
                if (!e || e->size < L) cx.fail(O_CB, "null_callback_no_library_buffer", "callback returned NULL but table entry is not a library allocation of >= L bytes");
              }
#endif
            }
          }
        }
        for (const CbRec& q : cblog) {
          if (q.rep) continue;
          if (q.esi >= k) cx.fail(O_CB, "callback_bad_esi", "source callback invoked with esi " + std::to_string(q.esi) + " >= k");
          else if (!src_tab[q.esi]) cx.fail(O_CB, "callback_for_unavailable_symbol", "callback invoked for source symbol " + std::to_string(q.esi) + " which is not available afterwards");
        }
        if (any_decoded) {
          cx.features |= F_DECODED;
          if (code->binary) { if (!finished) cx.features |= F_IT_DECODED; }
        }
        if (navail == k && nsrc_recv == k) cx.features |= F_ALLRECV;
        if (c == 1 && navail != k) cx.fail(O_SOUND, "complete_but_symbol_missing", "of_is_decoding_complete true but only " + std::to_string(navail) + "/" + std::to_string(k) + " source symbols available");
        if (c == 0 && navail == k) cx.fail(O_STATUS, "all_available_but_not_complete", "all k source symbols available but of_is_decoding_complete is false");
        if (sc.cfg.codec == CODEC_LDPC && !finished && !used_avail) {
          for (uint32_t i = 0; i < k; i++)
            if ((src_tab[i] != nullptr) != (bool)closure[i]) {
              cx.fail(O_PEEL, src_tab[i] ? "available_outside_closure" : "closure_symbol_not_available",
                      "source " + std::to_string(i) + ": available=" + std::to_string(src_tab[i] != nullptr) + " but peeling closure says " + std::to_string((int)closure[i]));
              break;
            }
          if (max_src_chain >= 2) cx.features |= F_CHAIN2;
        }
        if (code->binary && finished) {
          // after ML: sources available beyond the peeling closure were found by elimination
          for (uint32_t i = 0; i < k; i++) if (src_tab[i] && !closure[i]) { cx.features |= F_GE_DECODED; break; }
        }
      } else {
        if (c == 1) cx.fail(O_SOUND, "complete_but_table_refused", "of_is_decoding_complete true but of_get_source_symbols_tab returned " + std::to_string(s));
        if (!rs()) cx.fail(O_STATUS, "get_source_symbols_tab_failed", "of_get_source_symbols_tab returned " + std::to_string(s));
        for (const CbRec& q : cblog)
          if (!q.rep) { cx.fail(O_CB, "callback_for_unavailable_symbol", "callback invoked (esi " + std::to_string(q.esi) + ") but no source symbol is available"); break; }
      }
    }
    if (ndistinct < k) cx.features |= F_LT_K;
    tr("query", mix2(th, (uint64_t)(c + 1)));
    (void)final_q;
  }

  void step_bad(const Step& st) {
    if (!created || released) { cx.skipped_steps++; return; }
    cx.features |= F_BADCALL;
    int s = 0; bool isbool = false; std::string what;
    static uint8_t dummy[8];
    void* dummytab[1] = {nullptr};
    switch (st.esi % BAD_KINDS) {
      case BAD_NEW_ESI: {
        if (!cfg_ok || !is_dec_role() || ((dir & 1) && !mixed_ok())) { cx.skipped_steps++; return; }
        uint32_t e = st.flag < n ? n + st.flag : st.flag;  // always >= n
        Buf& b = get_buf(0, 0);
        s = call([&] { return sh_decode_new(ses, b.p(), e); }); what = "decode_with_new_symbol(esi=" + std::to_string(e) + ")";
      } break;
      case BAD_BUILD_ESI: {
        if (!cfg_ok || !is_enc_role() || ((dir & 2) && !mixed_ok())) { cx.skipped_steps++; return; }
        dir |= 1; enc_prepare();
        uint32_t e = (st.flag & 1) ? (st.flag >> 1) % k : n + (st.flag >> 1) % 3 + ((st.flag >> 3) & 1) * 0x7fffff00u;
        s = call([&] { return sh_build(ses, enc_tab, e); }); what = "build_repair_symbol(esi=" + std::to_string(e) + ")";
      } break;
      case BAD_NULL_SES: {
        switch (st.flag % 9) {
          case 0: s = sh_build(nullptr, dummytab, 0); what = "build(NULL)"; break;
          case 1: s = sh_decode_new(nullptr, dummy, 0); what = "decode_new(NULL)"; break;
          case 2: s = sh_set_avail(nullptr, dummytab); what = "set_avail(NULL)"; break;
          case 3: s = sh_finish(nullptr); what = "finish(NULL)"; break;
          case 4: s = sh_is_complete(nullptr); isbool = true; what = "is_complete(NULL)"; break;
          case 5: s = sh_get_src_tab(nullptr, dummytab); what = "get_source_symbols_tab(NULL)"; break;
          case 6: s = sh_set_params(nullptr, sc.cfg.codec, 1, 1, 1, 8, 3, 1); what = "set_fec_parameters(NULL)"; break;
          case 7: s = sh_set_cb(nullptr, hist_src_cb, nullptr, nullptr); what = "set_callback_functions(NULL)"; break;
          default: { uint32_t v; s = sh_get_ctrl_u32(nullptr, 1, &v); what = "get_control_parameter(NULL)"; }
        }
      } break;
      case BAD_ROLE: {
        if (!cfg_ok) { cx.skipped_steps++; return; }
        if (sc.role == ROLE_ENC) {
          if (!avail_tab) { avail_tab = (void**)malloc(sizeof(void*) * n); for (uint32_t i = 0; i < n; i++) avail_tab[i] = nullptr; }
          if (!src_tab) src_tab = (void**)malloc(sizeof(void*) * k);
          switch (st.flag % 5) {
            case 0: { Buf& b = get_buf(0, 0); s = call([&] { return sh_decode_new(ses, b.p(), 0); }); what = "decode_new on encoder"; } break;
            case 1: s = call([&] { return sh_set_avail(ses, avail_tab); }); what = "set_avail on encoder"; break;
            case 2: s = call([&] { return sh_finish(ses); }); what = "finish on encoder"; break;
            case 3: s = call([&] { return sh_is_complete(ses); }); isbool = true; what = "is_complete on encoder"; break;
            default: s = call([&] { return sh_get_src_tab(ses, src_tab); }); what = "get_source_symbols_tab on encoder";
          }
        } else if (sc.role == ROLE_DEC) {
          void** t = (void**)malloc(sizeof(void*) * n);
          for (uint32_t i = 0; i < n; i++) t[i] = nullptr;
          for (uint32_t i = 0; i < k; i++) t[i] = get_buf(i, 0).p();
          Buf& ob = get_buf(k, 1);
          t[k] = ob.p();
          s = call([&] { return sh_build(ses, t, k); }); what = "build on decoder";
          free(t);
        } else { cx.skipped_steps++; return; }
      } break;
      case BAD_NEW_NULLBUF: {
        if (!cfg_ok || !is_dec_role() || ((dir & 1) && !mixed_ok())) { cx.skipped_steps++; return; }
        uint32_t e = st.flag % n;
        s = call([&] { return sh_decode_new(ses, nullptr, e); }); what = "decode_with_new_symbol(NULL buffer)";
      } break;
    }
    if (isbool ? (s != 0) : (s == ST_OK))
      cx.fail(O_PARAM, "bad_call_accepted", what + " returned " + std::to_string(s) + " instead of an error");
    check_app_memory("bad", true);
    tr("bad " + what, (uint64_t)s);
  }

  void do_step(const Step& st) {
    switch (st.op) {
      case OP_SETCB: step_setcb(st); break;
      case OP_SETPARAMS: step_setparams(); break;
      case OP_BUILD: step_build(st); break;
      case OP_NEW: step_new(st); break;
      case OP_AVAIL: step_avail(st); break;
      case OP_FINISH: step_finish(); break;
      case OP_QUERY: step_query(st.flag ? st.flag : 3); break;
      case OP_BAD: step_bad(st); break;
      case OP_SETCTRL: step_setctrl(st); break;
      default: break;
    }
  }

  void do_release(bool from_dtor = false) {
    if (!created || released) return;
    std::set<void*> app_owned;
    if (cfg_ok && (dir & 2) && !from_dtor && !cx.stop) {
      step_query(3, true);  // as eperftool does: fetch the table before releasing
      // the application owns every decoded source symbol
      int s = sh_get_src_tab(ses, src_tab);
      if (s == ST_OK)
        for (uint32_t i = 0; i < k; i++) {
          void* p = src_tab[i];
          if (!p) continue;
          bool is_app = (buf[0].size() > i && buf[0][i].p() == p) || (buf[1].size() > i && buf[1][i].p() == p);
          if (!is_app && std::find(cb_bufs.begin(), cb_bufs.end(), p) == cb_bufs.end()) app_owned.insert(p);
        }
      if (!ever_complete && ndistinct > 0) cx.features |= F_MIDDECODE_REL | F_EARLY_REL;
    }
    if (!cfg_ok) cx.features |= F_UNCONF_REL;
    if (!from_dtor) requery_last_null();
    if (dir & 1) { for (uint32_t i = k; i < n; i++) if (!enc_built[i]) { cx.features |= F_EARLY_REL; break; } }
    if (dir == 3) cx.counters["mixed_direction_sessions"]++;
    if (!from_dtor) check_app_memory("pre-release", true);
    int s = call([&] { return sh_release(ses); });
    released = true;
    if (s != ST_OK && !from_dtor) cx.fail(O_LEAK, "release_not_ok", "of_release_codec_instance returned " + std::to_string(s));
    tr("release", (uint64_t)s);
    if (!from_dtor) check_app_memory("release", true);
    for (void* p : app_owned) free(p);
    if (enc_tab) for (uint32_t i = k; i < n; i++) if (enc_tab[i] && enc_lib_alloc[i]) { free(enc_tab[i]); enc_tab[i] = nullptr; enc_shadow[i] = nullptr; enc_lib_alloc[i] = 0; }
#ifndef VERIF_NOSAN
    if (at::overflow) { cx.leak_overflow = true; }
    else if (!from_dtor) {
      size_t cnt = 0, bytes = 0; int first_call = -1; size_t first_size = 0;
      at::for_tag(id, [&](const at::Ent& e) { cnt++; bytes += e.size; if (first_call < 0 || e.call < first_call) { first_call = e.call; first_size = e.size; } });
      if (cnt) {
        cx.fail(O_LEAK, "leak_after_release", std::to_string(cnt) + " library allocation(s), " + std::to_string(bytes) + " bytes, still live after release (first: " +
                                                  std::to_string(first_size) + " bytes allocated in API call #" + std::to_string(first_call) + ")");
        // forget them so that later sessions of the same case are judged on their own
        std::vector<uintptr_t> ps; at::for_tag(id, [&](const at::Ent& e) { ps.push_back(e.p); });
        for (uintptr_t p : ps) at::on_free((void*)p);
      }
    }
#endif
  }
};

static void* hist_src_cb(void* ctx, uint32_t size, uint32_t esi) {
  int prev = sh_in_library; sh_in_library = 0;
  Sess* s = (Sess*)ctx;
  void* ret = nullptr;
  bool give_null = s->sc.cbmode == 2 || (s->sc.cbmode == 3 && ((s->sc.cbmask >> (s->cb_count % 64)) & 1));
  s->cb_count++;
  s->cx.features |= F_CB;
  if (give_null) s->cx.features |= F_CB_NULL;
  else { ret = malloc(size ? size : 1); memset(ret, 0xEE, size ? size : 1); s->cb_bufs.push_back(ret); }
  s->cblog.push_back(Sess::CbRec{s->cur_call, esi, size, ret, false});
  if (g_reenter_hook) {
    uint64_t keep = s->cur_call;
    (*g_reenter_hook)(s->id);      // another session's next step, from inside this session's callback
    s->cur_call = keep;
#ifndef VERIF_NOSAN
    at::at_tag = s->id;            // allocations of the interrupted call belong to this session again
#endif
  }
  sh_in_library = prev;
  return ret;
}
static void* hist_rep_cb(void* ctx, uint32_t size, uint32_t esi) {
  int prev = sh_in_library; sh_in_library = 0;
  Sess* s = (Sess*)ctx;
  void* ret = nullptr;
  if (s->sc.repmode == 1) { ret = malloc(size ? size : 1); memset(ret, 0xDD, size ? size : 1); s->cb_bufs.push_back(ret); }
  s->cblog.push_back(Sess::CbRec{s->cur_call, esi, size, ret, true});
  sh_in_library = prev;
  return ret;
}

// ---------------------------------------------------------------------------------------------
// run a whole history (all scripts, interleaved as h.inter says, then round-robin)
struct RunResult { std::vector<std::vector<TraceEnt>> traces; std::vector<int> last_null; std::vector<char> cfg_ok; };

inline RunResult run_history(const History& h, Ctx& cx, const std::map<int, std::shared_ptr<CodeRef>>* injected = nullptr) {
  RunResult rr;
  size_t ns = h.scripts.size();
  std::vector<std::unique_ptr<Sess>> ss;
  for (size_t i = 0; i < ns; i++) {
    ss.emplace_back(new Sess(h.scripts[i], (int)i + 1, cx));
    if (injected) { auto it = injected->find((int)i); if (it != injected->end()) ss.back()->injected = it->second; }
  }
  std::vector<size_t> pos(ns, 0);
  std::vector<char> started(ns, 0), done(ns, 0);
  size_t remaining = ns;
  auto advance = [&](size_t i) {
    if (done[i]) return;
    Sess& s = *ss[i];
    if (!started[i]) { started[i] = 1; s.do_create(); if (!s.created) { done[i] = 1; remaining--; } return; }
    if (pos[i] < s.sc.steps.size()) { s.do_step(s.sc.steps[pos[i]++]); return; }
    s.do_release(); done[i] = 1; remaining--;
  };
  uint32_t reenter_left = h.reenter;
  std::vector<char> busy(ns, 0);
  std::function<void(int)> hook = [&](int from_id) {
    if (!reenter_left || cx.stop) return;
    size_t from = (size_t)from_id - 1;
    for (size_t d = 1; d < ns; d++) {
      size_t j = (from + d) % ns;
      if (done[j] || busy[j]) continue;
      reenter_left--; cx.counters["nested_steps_from_callback"]++;
      busy[from] = 1; busy[j] = 1;
      advance(j);
      busy[j] = 0;
      return;
    }
  };
  if (h.reenter && ns > 1) g_reenter_hook = &hook;
  size_t alive_other_steps = 0;
  for (uint32_t idx : h.inter) {
    if (cx.stop || remaining == 0) break;
    size_t i = idx % ns;
    if (done[i]) continue;
    size_t alive = 0; for (size_t j = 0; j < ns; j++) if (started[j] && !done[j]) alive++;
    if (alive >= 2) alive_other_steps++;
    advance(i);
  }
  if (alive_other_steps >= 2) cx.features |= F_MULTI;
  while (!cx.stop && remaining) for (size_t i = 0; i < ns && !cx.stop; i++) advance(i);
  g_reenter_hook = nullptr;
  for (size_t i = 0; i < ns; i++) { rr.traces.push_back(ss[i]->trace); rr.last_null.push_back(ss[i]->last_null); rr.cfg_ok.push_back(ss[i]->cfg_ok); }
  ss.clear();  // destructors release whatever is left
#ifndef VERIF_NOSAN
  if (at::live) at::hard_reset(); else at::reset_if_empty();
#endif
  return rr;
}

}  // namespace hist
