// E1: history engine driven by rapidcheck (generation + shrinking of the choice stream), plus
// replay of text histories and complete enumerators for small codes.
#include <rapidcheck.h>
#include "engine.hpp"
#include "special.hpp"

#include <sys/time.h>
#include <signal.h>
using namespace hist;

// CPU-time watchdog: an API call normally takes micro- to milliseconds; one that burns tens of CPU seconds
// (ITIMER_VIRTUAL: process CPU time, not wall clock, so machine load does not matter) never returns its
// promised result. Ticks are counted per outermost API call and only while the library runs (shim flag):
// what the harness itself spends on a large case (models, comparisons) is not the library's doing. A case
// whose total exceeds ten times the limit is abandoned as inconclusive (exit 97), never reported.
// The driver replays a stopped case three times before reporting it.
static volatile int g_case_ticks = 0;
static int g_tick_limit = 60;
static void on_cpu_tick(int) {
  g_case_ticks++;
  if (sh_in_library && ++sh_call_ticks >= g_tick_limit) { const char m[] = "CASE-CPU-LIMIT\n"; ssize_t w = write(2, m, sizeof m - 1); (void)w; _exit(98); }
  if (g_case_ticks >= 10 * g_tick_limit) { const char m[] = "CASE-HARNESS-BUDGET\n"; ssize_t w = write(2, m, sizeof m - 1); (void)w; _exit(97); }
}
static void arm_watchdog(int seconds) {
  g_tick_limit = seconds; g_case_ticks = 0; sh_call_ticks = 0;
  struct itimerval it; memset(&it, 0, sizeof it); it.it_value.tv_sec = 1; it.it_interval.tv_sec = 1;
  setitimer(ITIMER_VIRTUAL, &it, nullptr);
}

static std::string arg(int argc, char** argv, const char* name, const char* def = "") {
  for (int i = 1; i + 1 < argc; i++) if (!strcmp(argv[i], name)) return argv[i + 1];
  return def;
}
static bool has(int argc, char** argv, const char* name) {
  for (int i = 1; i < argc; i++) if (!strcmp(argv[i], name)) return true;
  return false;
}

int main(int argc, char** argv) {
  // library chatter (stdout/stderr printf) must not be mistaken for verdicts: keep our own channel
  int report_fd = dup(1);
  FILE* rep = fdopen(report_fd, "w");
  std::string liblog = arg(argc, argv, "--liblog", "/dev/null");
  if (!has(argc, argv, "--verbose")) {
    int nf = open(liblog.c_str(), O_WRONLY | O_CREAT | O_APPEND, 0644);
    if (nf >= 0) { dup2(nf, 1); close(nf); }
  }
  // stdio allocates its buffers lazily, inside whatever library call prints first: give it static ones
  static char so_buf[1 << 16], se_buf[1 << 12];
  setvbuf(stdout, so_buf, _IOFBF, sizeof so_buf);
  setvbuf(stderr, se_buf, _IOLBF, sizeof se_buf);
#ifndef VERIF_NOSAN
  at::install();
#endif
  std::string prop = arg(argc, argv, "--prop", "C01");
  Tier tier; tier.thorough = arg(argc, argv, "--tier", "quick") == "thorough";
  std::string out = arg(argc, argv, "--out", "");
  std::string failout = arg(argc, argv, "--fail-out", "");
  std::string curpath = arg(argc, argv, "--cur", "");
  std::string replay = arg(argc, argv, "--replay", "");
  std::string mode = arg(argc, argv, "--mode", "random");
  uint64_t seed = strtoull(arg(argc, argv, "--seed", "1").c_str(), nullptr, 10);
  int worker = atoi(arg(argc, argv, "--worker", "0").c_str());
  int nworkers = atoi(arg(argc, argv, "--nworkers", "1").c_str());

  {  // open known findings: --known sig1,sig2
    std::string kn = arg(argc, argv, "--known", "");
    size_t pos = 0;
    while (pos < kn.size()) { size_t c = kn.find(',', pos); if (c == std::string::npos) c = kn.size(); if (c > pos) special::g_extra.known.insert(kn.substr(pos, c - pos)); pos = c + 1; }
  }
  special::init_zygote();  // forked before the first library call (C12)

  PropSpec ps = special::full_spec(prop, tier);
  if (ps.enabled == 0) { fprintf(rep, "unknown property %s\n", prop.c_str()); return 2; }

  signal(SIGVTALRM, on_cpu_tick);
  const int cpu_limit = tier.thorough ? 240 : 60;
  if (!replay.empty()) {
    arm_watchdog(cpu_limit);
    std::string txt; History h; std::string err;
    if (!read_file(replay, txt) || !from_text(txt, h, &err)) { fprintf(rep, "REPLAY-ERROR cannot parse %s: %s\n", replay.c_str(), err.c_str()); return 2; }
    CaseResult cr = special::run_any(h, ps, nullptr);
    if (cr.failed) { fprintf(rep, "REPLAY-FAIL %s :: %s\n", cr.first.sig.c_str(), cr.first.msg.c_str()); fflush(rep); return 1; }
    for (auto& n : cr.notes) fprintf(rep, "REPLAY-NOTE %s :: %s\n", n.sig.c_str(), n.msg.c_str());
    fprintf(rep, "REPLAY-PASS\n"); fflush(rep);
    return 0;
  }

  Stats st; st.rule = ps.rule ? ps.rule : "";
  CurCase cur; if (!curpath.empty()) cur.open(curpath);
  bool failed = false; Fail ff; History fh;
  History first_fh; Fail first_ff;   // the failing history as first found (before any in-process shrinking)

  auto one = [&](const History& h) -> bool {
    cur.put(to_text(h));
    arm_watchdog(cpu_limit);
    CaseResult cr = special::run_any(h, ps, &st);
    if (cr.failed) { if (!failed) { first_fh = h; first_ff = cr.first; } failed = true; ff = cr.first; fh = h; return false; }
    return true;
  };

  std::string extra_json;
  if (mode == "enum") {
    special::enumerate(prop, tier, worker, nworkers, seed, one, extra_json, &ps, &st);
    if (prop == "C16") st.exhaustive = true;
  } else {
    // RC_PARAMS (seed, max_success, max_size) is set by the driver
    // shrinking is rapidcheck's, but bounded: after the budget every further candidate "passes", which
    // ends the shrink search at the smallest failing history found so far (then minimise() continues)
    uint64_t shrink_execs = 0; const uint64_t shrink_budget = 1500;
    size_t fh_steps = 0;  // histories of thousands of steps cost ~0.3 s per execution: small budgets for those
    rc::check(prop.c_str(), [&](const std::vector<uint32_t>& choices) {
      if (failed && ++shrink_execs > (fh_steps > 2000 ? 40 : shrink_budget)) return;
      Chooser ch(choices.data(), choices.size());
      History h = special::generate(ps, ch);
      if (!one(h)) { fh_steps = 40 * fh.scripts.size(); for (auto& sc : fh.scripts) fh_steps += sc.steps.size(); RC_FAIL(ff.sig + " :: " + ff.msg); }   // cost: steps, and sessions (each may be run alone in its own process)
    });
  }
  cur.clear();
  std::string replay_path;
  if (failed) {
    // crash-safe: publish the failure as found before minimising it further (a candidate may kill the process)
    if (!failout.empty()) { std::string t0 = "# property " + prop + "\n# signature " + ff.sig + "\n# " + ff.msg + "\n" + to_text(fh); write_file(failout, t0); write_file(failout + ".orig", "# property " + prop + "\n# signature " + first_ff.sig + "\n# " + first_ff.msg + "\n" + to_text(first_fh)); }
    if (!out.empty()) write_stats(out, prop, st, true, ff.sig, ff.msg, failout, extra_json);
    // rapidcheck's last failing execution is its shrunk counterexample; minimise further on steps
    size_t nsteps = 40 * fh.scripts.size(); for (auto& sc : fh.scripts) nsteps += sc.steps.size();
    History m = special::minimise_any(fh, ps, ff.sig, nsteps > 2000 ? 60 : 500);
    Fail f2 = ff;
    { CaseResult cr = special::run_any(m, ps, nullptr); if (cr.failed) f2 = cr.first; }
    std::string txt = "# property " + prop + "\n# signature " + f2.sig + "\n# " + f2.msg + "\n" + to_text(m);
    replay_path = failout;
    if (!failout.empty()) write_file(failout, txt);
    ff = f2;
  }
  if (!out.empty()) write_stats(out, prop, st, failed, ff.sig, ff.msg, replay_path, extra_json);
  fprintf(rep, "%s worker %d: %llu cases, %zu distinct non-trivial, %s\n", prop.c_str(), worker, (unsigned long long)st.evaluations,
          st.distinct.size(), failed ? ("FAIL " + ff.sig).c_str() : "ok");
  fflush(rep);
  return failed ? 1 : 0;
}
