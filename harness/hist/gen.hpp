// Structure-aware decoder: a stream of 32-bit choices (from rapidcheck, from libFuzzer bytes, or
// from an enumerator) -> a protocol-conforming History. Every value is clamped INTO the valid
// domain, so every stream is a valid history (construction, not rejection). Choice 0 is always
// the simplest alternative, so shrinking the stream simplifies the history.
#pragma once
#include "history.hpp"
#include <algorithm>
#include <numeric>

namespace hist {

struct Chooser {
  const uint32_t* v; size_t n; size_t i = 0;
  Chooser(const uint32_t* v_, size_t n_) : v(v_), n(n_) {}
  uint32_t next() { return i < n ? v[i++] : 0; }
  uint32_t range(uint32_t lo, uint32_t hi) { return hi <= lo ? lo : lo + next() % (hi - lo + 1); }
  bool coin(uint32_t num, uint32_t den) { return next() % den >= den - num; }  // choice 0 => false
  uint64_t seed64() { uint64_t a = next(); return (a << 32) | next(); }
  template <class T> T pick(std::initializer_list<T> l) { return *(l.begin() + next() % l.size()); }
};

enum { GC_RS8 = 1, GC_RSM4 = 2, GC_RSM8 = 4, GC_LDPC = 8 };

struct GenOpts {
  uint32_t codecs = GC_RS8 | GC_RSM4 | GC_RSM8 | GC_LDPC;
  uint32_t max_n_rs = 255;
  uint32_t max_k_ldpc = 60, max_n_ldpc = 120;
  int finish_mode = 0;   // 0 random, 1 always, 2 never
  int api_mode = 0;      // 0 random, 1 NEW only, 2 AVAIL only
  int query_mode = 0;    // 0 sprinkled, 1 after every step
  int cb_mode = 0;       // 0 random, 1 always a source callback, 2 never
  bool early_release = true;
  bool dups = true;
  bool big_L = true;
  int even_n1_bias = 0;  // 1: prefer even N1 (C15)
  int nrecv_focus = 0;   // 0 broad, 1 around k (ML region)
  bool heavy = true;     // allow the rare scenarios with ~10^4 steps (deep unroll, noisy neighbour); off under libFuzzer
};

// Rare scenario classes are drawn with small probabilities by the random generators; the scenario phase of every check
// also runs a fixed number of cases of each class (special::scenario_cases) by forcing the draw through this variable.
enum Scenario { SC_NONE = 0, SC_DEEP0, SC_DEEP1, SC_DEEP2, SC_NOISY, SC_CROWD, SC_NESTED, SC_RETRY, SC_TWIN, SC_WIDEROW, SC_WIDEROW_BIG,
                SC_LN256, SC_LN65536, SC_C05BIG, SC_C05VERB, SC_ENCPAIR, SC_ENCCROWD, SC_MULTI, SC_SIBLING, SC_MARATHON, SC_COUNT };
static const char* const scenario_names[] = {"none", "deep_unroll_4096", "deep_unroll_8192", "deep_unroll_16384", "noisy_neighbour", "crowd", "nested_decode", "retry_after_failure",
  "progress_then_twin", "wide_rows_256", "wide_rows_1024", "lastnull_extras_256", "lastnull_extras_65536", "big_block", "verbose_neighbour", "encoder_pair", "encoder_crowd", "multi_session", "sibling_sessions", "marathon_revisit"};
static int g_force = SC_NONE;

inline void seeded_shuffle(std::vector<uint32_t>& v, uint64_t seed) {
  uint64_t x = seed;
  for (size_t i = v.size(); i > 1; i--) { size_t j = (size_t)(splitmix(x) % i); std::swap(v[i - 1], v[j]); }
}

inline uint32_t gen_L(Chooser& ch, const GenOpts& o) {
  uint32_t c = ch.next() % 16;
  if (c < 12) return ch.range(1, 70);
  if (c < 14 || !o.big_L) return ch.pick<uint32_t>({1, 2, 7, 8, 9, 15, 16, 17, 31, 32, 33, 63, 64, 65});
  uint32_t w = ch.next() % 4;
  if (w == 0) return ch.pick<uint32_t>({255, 256, 257, 1024, 1500, 1500, 4096, 65535});
  if (w == 1) return ch.pick<uint32_t>({1472, 1500, 8972, 9000, 65507, 65535, 65536, 576, 1280});   // sizes protocols suggest
  // ladder: m * 2^j, and its neighbours (internal tiles, strides and unroll widths are usually of this form)
  uint32_t m = ch.pick<uint32_t>({1, 3, 5, 7, 9}), j = ch.range(4, 14);
  uint64_t v = (uint64_t)m << j;
  if (v > 65536) v = 65536;
  return (uint32_t)v + ch.pick<uint32_t>({0, 0, 1}) - (ch.next() % 4 == 0 ? 1 : 0);
}

inline Config gen_config(Chooser& ch, const GenOpts& o) {
  Config c;
  std::vector<int> cs;
  if (o.codecs & GC_RS8) cs.push_back(0);
  if (o.codecs & GC_RSM4) cs.push_back(1);
  if (o.codecs & GC_RSM8) cs.push_back(2);
  if (o.codecs & GC_LDPC) cs.push_back(3);
  int which = cs[ch.next() % cs.size()];
  bool force_wide = (g_force == SC_WIDEROW || g_force == SC_WIDEROW_BIG) && (o.codecs & GC_LDPC);
  if (force_wide) which = 3;
  uint32_t scale = ch.next() % 8;  // 0,1: tiny  2-5: small/medium  6: large  7: at the limit
  if (which <= 2) {
    c.codec = which == 0 ? CODEC_RS8 : CODEC_RSM;
    c.m = which == 1 ? 4 : 8;
    uint32_t lim = which == 1 ? 15 : std::min<uint32_t>(255, o.max_n_rs);
    uint32_t nmax = scale <= 1 ? std::min<uint32_t>(lim, 6) : scale <= 5 ? std::min<uint32_t>(lim, 40) : lim;
    if (scale == 7) { uint32_t n = lim - ch.range(0, 1); c.k = ch.range(1, n - 1); c.r = n - c.k; }
    else { uint32_t n = ch.range(2, nmax); c.k = ch.range(1, n - 1); c.r = n - c.k; }
  } else {
    c.codec = CODEC_LDPC;
    c.N1 = ch.range(3, 10);
    // the codec accepts any N1 in 3..n-k: now and then a large one (many equations per source symbol)
    { uint32_t nc = ch.next() % 20; if (nc == 19) c.N1 = ch.range(41, 255); else if (nc >= 16) c.N1 = ch.range(11, 40); }
    if (o.even_n1_bias && ch.coin(3, 4)) c.N1 = (c.N1 | 1) + 1 > 10 && c.N1 <= 10 ? 4 : (c.N1 | 1) + 1;
    uint32_t kmax = scale <= 1 ? 8 : scale <= 5 ? std::min<uint32_t>(40, o.max_k_ldpc) : o.max_k_ldpc;
    c.k = ch.range(1, kmax);
    // code rate classes: high rate (r small), 2/3, 1/2, low rate (r > k)
    uint32_t rc = ch.next() % 6;
    uint32_t rr;
    switch (rc) {
      case 0: rr = c.k / 2; break;
      case 1: rr = c.k; break;
      case 2: rr = c.k / 4; break;
      case 3: rr = c.k / 9; break;
      case 4: rr = 2 * c.k; break;
      default: rr = ch.range(0, 4 * c.k);
    }
    rr += ch.range(0, 3);
    if (rr < c.N1) rr = c.N1;
    if (c.k + rr > o.max_n_ldpc) rr = std::max<uint32_t>(c.N1, o.max_n_ldpc > c.k ? o.max_n_ldpc - c.k : c.N1);
    if (c.k + rr > 50000) { c.N1 = 3; rr = 3; }
    c.r = rr;
    // now and then a very high rate code with k >= 256: equations with several hundred symbols (counters
    // of row weights and of unknown symbols must hold more than 8 bits)
    if (ch.next() % 20 == 19 || force_wide) {
      c.k = ch.range(256, 700); if (c.N1 > 12) c.N1 = ch.range(3, 10); c.r = c.N1 + ch.range(0, 6);
      // one in four of these: equations with more than 1024 / 2048 / 4096 symbols (batch sizes and 10..12-bit counters)
      if (o.heavy && (ch.next() % 4 == 3 || g_force == SC_WIDEROW_BIG) && g_force != SC_WIDEROW) { uint32_t w = ch.pick<uint32_t>({1024, 1024, 2048, 4096}); uint32_t per = w + ch.range(0, 80); c.k = std::min<uint32_t>(49000, (per * c.r + c.N1 - 1) / c.N1); }
    }
    uint32_t sc = ch.next() % 8;
    c.seed = sc == 0 ? 1 : sc == 1 ? 0x7FFFFFFEu : sc == 2 ? ch.pick<uint32_t>({2, 16807, 0x7FFFFFFDu, 127773, 2836}) : (ch.next() % 0x7FFFFFFEu) + 1;
  }
  uint32_t pc = ch.next() % 8;
  c.payload = pc < 5 ? PAY_RANDOM : pc < 7 ? PAY_IDENTITY : (ch.coin(1, 2) ? PAY_ONES : PAY_ZERO);
  c.pseed = ch.next();
  c.L = gen_L(ch, o);
  if ((uint64_t)c.L * (c.k + c.r) > (4u << 20)) c.L = 1 + c.L % 70;   // 64 KiB symbols only on small blocks
  return c;
}

inline void add_callbacks(Chooser& ch, const GenOpts& o, Script& s, bool& cb_after) {
  uint32_t m = o.cb_mode == 2 ? 0 : o.cb_mode == 1 ? 1 + ch.next() % 3 : ch.next() % 6;  // 0,4,5: none
  if (m >= 4) m = 0;
  s.cbmode = m ? (int)m : 1;
  s.cbmask = ch.seed64();
  s.repmode = ch.next() % 2;
  cb_after = false;
  if (m) {
    uint32_t flag = 1 | (ch.coin(1, 4) ? 2 : 0);
    if (o.cb_mode != 1 && ch.next() % 12 == 11) flag = 2;   // only the repair callback registered
    cb_after = ch.coin(1, 2);
    if (!cb_after) { Step st; st.op = OP_SETCB; st.flag = flag; s.steps.push_back(st); }
    Step sp; sp.op = OP_SETPARAMS; s.steps.push_back(sp);
    if (cb_after) { Step st; st.op = OP_SETCB; st.flag = flag; s.steps.push_back(st); }
  } else {
    Step sp; sp.op = OP_SETPARAMS; s.steps.push_back(sp);
  }
}

inline void push_query(Script& s, uint32_t flag = 3) { Step q; q.op = OP_QUERY; q.flag = flag; s.steps.push_back(q); }

// received subset + arrival order for a configuration
inline std::vector<uint32_t> gen_received(Chooser& ch, const GenOpts& o, const Config& c) {
  uint32_t k = c.k, n = c.k + c.r;
  uint32_t nrecv;
  uint32_t cls = ch.next() % 16;
  if (cls == 15) nrecv = 0;
  else if (cls == 14) nrecv = n;
  else if (cls == 13) nrecv = 1;
  else if (cls == 12) nrecv = ch.range(0, n);
  else {
    // around k: k-2 .. k + ceil(0.3 k) + 3
    uint32_t lo = k >= 2 ? k - 2 : 0, hi = std::min<uint32_t>(n, k + (3 * k + 9) / 10 + 3);
    if (o.nrecv_focus == 1) hi = std::min<uint32_t>(n, k + 6);
    nrecv = ch.range(lo, hi);
    if (c.codec != CODEC_LDPC && cls < 6) nrecv = std::min<uint32_t>(n, ch.pick<uint32_t>({k, k, k + 1, k >= 1 ? k - 1 : 0}));
  }
  std::vector<uint32_t> all(n);
  std::iota(all.begin(), all.end(), 0);
  uint32_t sel = ch.next() % 8;
  uint64_t sseed = ch.seed64();
  std::vector<uint32_t> rec;
  switch (sel) {
    case 0: case 1: case 2: case 3: seeded_shuffle(all, sseed); rec.assign(all.begin(), all.begin() + nrecv); break;
    case 4: rec.assign(all.begin(), all.begin() + nrecv); break;                      // lowest ESIs
    case 5: rec.assign(all.end() - nrecv, all.end()); break;                           // highest ESIs (repairs)
    case 6: {                                                                           // repairs first, then random sources
      for (uint32_t e = k; e < n && rec.size() < nrecv; e++) rec.push_back(e);
      std::vector<uint32_t> src(all.begin(), all.begin() + k); seeded_shuffle(src, sseed);
      for (uint32_t e : src) { if (rec.size() >= nrecv) break; rec.push_back(e); }
    } break;
    default: {                                                                          // alternating
      for (uint32_t e = 0; e < n && rec.size() < nrecv; e += 2) rec.push_back(e);
      for (uint32_t e = 1; e < n && rec.size() < nrecv; e += 2) rec.push_back(e);
    }
  }
  uint32_t ord = ch.next() % 8;
  uint64_t oseed = ch.seed64();
  switch (ord) {
    case 0: std::sort(rec.begin(), rec.end()); break;
    case 1: std::sort(rec.begin(), rec.end()); std::reverse(rec.begin(), rec.end()); break;
    case 2: std::stable_sort(rec.begin(), rec.end(), [&](uint32_t a, uint32_t b) { return (a >= k) > (b >= k) || ((a >= k) == (b >= k) && a > b); }); break;  // repairs (decreasing) first
    case 3: std::stable_sort(rec.begin(), rec.end(), [&](uint32_t a, uint32_t b) { return (a < k) > (b < k); }); break;  // sources first
    default: seeded_shuffle(rec, oseed);
  }
  return rec;
}

inline Script gen_decoder_script_cfg(Chooser& ch, const GenOpts& o, const Config& cfg) {
  Script s;
  s.cfg = cfg;
  s.role = ch.coin(1, 6) ? ROLE_BOTH : ROLE_DEC;
  s.align = ch.next();
  bool cb_after;
  add_callbacks(ch, o, s, cb_after);
  if (ch.next() % 10 == 9) push_query(s, 4);   // ask for the advertised limits
  std::vector<uint32_t> rec = gen_received(ch, o, s.cfg);
  bool use_avail = o.api_mode == 2 || (o.api_mode == 0 && ch.coin(1, 3));
  bool fin = o.finish_mode == 1 || (o.finish_mode == 0 && ch.coin(1, 2));
  uint32_t qrate = o.query_mode == 1 ? 1 : ch.pick<uint32_t>({4, 0, 1, 2, 8});
  uint64_t qs = ch.seed64();
  if (use_avail) {
    Step st; st.op = OP_AVAIL; st.set = rec; std::sort(st.set.begin(), st.set.end());
    s.steps.push_back(st);
    if (qrate) push_query(s);
  } else {
    uint32_t duprate = o.dups ? ch.pick<uint32_t>({0, 7, 3}) : 0;
    uint64_t ds = ch.seed64();
    for (size_t i = 0; i < rec.size(); i++) {
      Step st; st.op = OP_NEW; st.esi = rec[i]; s.steps.push_back(st);
      // blocks of thousands of symbols: the completion flag after every call, the whole table only now and then (a table query costs k comparisons)
      if (qrate && s.cfg.k > 1500) { if (qrate == 1 || splitmix(qs) % qrate == 0) push_query(s, (splitmix(qs) % 64 == 0) ? 3 : 1); }
      else
      if (qrate && (qrate == 1 || splitmix(qs) % qrate == 0)) push_query(s, 1 + (uint32_t)(splitmix(qs) % 3));
      if (duprate && splitmix(ds) % duprate == 0) {
        Step d; d.op = OP_NEW; d.esi = rec[(size_t)(splitmix(ds) % (i + 1))]; d.flag = (uint32_t)(splitmix(ds) & 1);
        s.steps.push_back(d);
        if (qrate == 1) push_query(s, s.cfg.k > 1500 ? 1 : 3);
      }
    }
  }
  if (fin) { Step f; f.op = OP_FINISH; s.steps.push_back(f); if (qrate) push_query(s); }
  // combined role on a Reed-Solomon session: the same session also encodes (a few repair symbols, at generated
  // positions among the decoding steps)
  if (s.role == ROLE_BOTH && s.cfg.codec != CODEC_LDPC && ch.coin(1, 2)) {
    uint32_t nb = ch.range(1, std::min<uint32_t>(s.cfg.r, 4));
    uint64_t bs = ch.seed64();
    for (uint32_t i = 0; i < nb; i++) {
      Step b; b.op = OP_BUILD; b.esi = s.cfg.k + (uint32_t)(splitmix(bs) % s.cfg.r); b.flag = (uint32_t)(splitmix(bs) & 1);
      size_t first = 0; while (first < s.steps.size() && s.steps[first].op != OP_SETPARAMS) first++;
      size_t pos = first + 1 + (size_t)(splitmix(bs) % (s.steps.size() - first));
      s.steps.insert(s.steps.begin() + (long)std::min(pos, s.steps.size()), b);
    }
  }
  if (o.early_release && ch.coin(1, 5)) {
    size_t cut = ch.range(0, (uint32_t)s.steps.size());
    s.steps.resize(cut);
  }
  return s;
}

inline Script gen_decoder_script(Chooser& ch, const GenOpts& o) { Config c = gen_config(ch, o); return gen_decoder_script_cfg(ch, o, c); }

inline Script gen_encoder_script_cfg(Chooser& ch, const GenOpts& o, const Config& cfg) {
  Script s;
  s.cfg = cfg;
  s.role = ch.coin(1, 6) ? ROLE_BOTH : ROLE_ENC;
  s.align = ch.next();
  Step sp; sp.op = OP_SETPARAMS; s.steps.push_back(sp);
  if (ch.next() % 10 == 9) push_query(s, 4);
  uint32_t k = s.cfg.k, n = s.cfg.k + s.cfg.r;
  std::vector<uint32_t> order(s.cfg.r);
  std::iota(order.begin(), order.end(), k);
  uint64_t os = ch.seed64();
  uint32_t nullrate = ch.pick<uint32_t>({0, 2, 1, 5});
  uint64_t ns = ch.seed64();
  if (s.cfg.codec != CODEC_LDPC) {
    uint32_t mode = ch.next() % 4;
    if (mode == 1) std::reverse(order.begin(), order.end());
    if (mode >= 2) seeded_shuffle(order, os);
    uint32_t cnt = ch.coin(1, 4) ? ch.range(0, (uint32_t)order.size()) : (uint32_t)order.size();
    order.resize(cnt);
    if (ch.coin(1, 4) && !order.empty()) { uint64_t x = os; for (int i = 0; i < 3; i++) order.push_back(order[(size_t)(splitmix(x) % order.size())]); }
  } else {
    uint32_t cnt = ch.coin(1, 4) ? ch.range(0, (uint32_t)order.size()) : (uint32_t)order.size();
    order.resize(cnt);
    if (ch.coin(1, 4) && !order.empty()) { uint64_t x = os; for (int i = 0; i < 2; i++) order.push_back(order[(size_t)(splitmix(x) % order.size())]); }
  }
  (void)n;
  for (uint32_t e : order) {
    Step b; b.op = OP_BUILD; b.esi = e; b.flag = (nullrate && splitmix(ns) % nullrate == 0) ? 1 : 0;
    s.steps.push_back(b);
  }
  return s;
}

inline Script gen_encoder_script(Chooser& ch, const GenOpts& o) { Config c = gen_config(ch, o); return gen_encoder_script_cfg(ch, o, c); }

inline History gen_single_decoder(Chooser& ch, const GenOpts& o) { History h; h.scripts.push_back(gen_decoder_script(ch, o)); return h; }
inline History gen_single_encoder(Chooser& ch, const GenOpts& o) { History h; h.scripts.push_back(gen_encoder_script(ch, o)); return h; }

// C12: 2-4 scripts with related parameters and an interleaving
// Nested decoding: two decoder sessions with source callbacks advance in lockstep up to their decoding step; the first
// one's decoding step then runs, and from inside its callbacks the second session takes its own decoding step.
inline History gen_nested(Chooser& ch, const GenOpts& o) {
  History h; GenOpts oo = o; oo.big_L = false;
  Config c1 = gen_config(ch, oo);
  Config c2 = c1;
  uint32_t rel = ch.next() % 4;
  if (rel == 0) c2.pseed ^= 0x77; else if (rel == 1) c2 = gen_config(ch, oo); else if (rel == 2) { c2.pseed ^= 0x33; c2.L = c1.L + 1; }
  for (int i = 0; i < 2; i++) {
    const Config& c = i ? c2 : c1;
    Script s; s.cfg = c; s.role = ROLE_DEC; s.cbmode = 1; s.align = ch.next();
    { Step st; st.op = OP_SETCB; st.flag = 1; s.steps.push_back(st); }
    { Step sp; sp.op = OP_SETPARAMS; s.steps.push_back(sp); }
    // everything arrives but 1..3 source symbols (and, for LDPC, a few repairs); decoding happens in one step
    uint32_t n = c.k + c.r, lose = std::min<uint32_t>(c.k, std::min<uint32_t>(c.r, ch.range(1, 3)));
    std::vector<uint32_t> src(c.k); std::iota(src.begin(), src.end(), 0); seeded_shuffle(src, ch.seed64());
    std::vector<char> lost(n, 0); for (uint32_t j = 0; j < lose; j++) lost[src[j]] = 1;
    bool avail = ch.coin(1, 2);
    std::vector<uint32_t> rec; for (uint32_t e = 0; e < n; e++) if (!lost[e]) rec.push_back(e);
    if (c.codec != CODEC_LDPC && ch.coin(1, 2)) { rec.clear(); for (uint32_t e = 0; e < c.k; e++) if (!lost[e]) rec.push_back(e); for (uint32_t j = 0; j < lose; j++) rec.push_back(c.k + j); }   // exactly k symbols
    if (avail) { Step a; a.op = OP_AVAIL; a.set = rec; s.steps.push_back(a); }
    else { std::stable_sort(rec.begin(), rec.end(), [&](uint32_t a, uint32_t b) { return (a < c.k) > (b < c.k); }); for (uint32_t e : rec) { Step st; st.op = OP_NEW; st.esi = e; s.steps.push_back(st); } }
    { Step f; f.op = OP_FINISH; s.steps.push_back(f); }
    push_query(s);
    h.scripts.push_back(s);
  }
  // lockstep over create / setcb / setparams; then session 0 runs to its end (its callbacks make session 1 step), then session 1
  for (int t = 0; t < 3; t++) { h.inter.push_back(0); h.inter.push_back(1); }
  for (size_t t = 0; t < h.scripts[0].steps.size(); t++) h.inter.push_back(0);
  h.reenter = ch.pick<uint32_t>({1, 2, 3, 8, 64});
  return h;
}

// A crowd: M sessions of one small code alive at the same time (M around 2^8: counters of concurrent users), each having
// done its first piece of work; then a few sessions of other codes live their whole life; then the crowd goes on.
inline History gen_crowd(Chooser& ch, const GenOpts& o, int force_enc = 0) {
  History h; GenOpts oo = o; oo.big_L = false; oo.max_k_ldpc = std::min<uint32_t>(oo.max_k_ldpc, 12); oo.max_n_ldpc = std::min<uint32_t>(oo.max_n_ldpc, 24); oo.max_n_rs = std::min<uint32_t>(oo.max_n_rs, 16); oo.heavy = false;
  Config c = gen_config(ch, oo); c.L = 1 + c.L % 16;
  if (c.k + c.r > 24) { c.k = 1 + c.k % 8; c.r = (c.codec == CODEC_LDPC ? std::max<uint32_t>(c.N1 = 3, 3) : 1) + c.r % 6; }
  bool enc = ch.coin(2, 3) || force_enc;
  uint32_t M = ch.pick<uint32_t>({255, 256, 256, 257, 300, 512, 64});
  Script base = enc ? gen_encoder_script_cfg(ch, oo, c) : gen_decoder_script_cfg(ch, oo, c);
  for (uint32_t i = 0; i < M; i++) { Script s = base; s.cfg.pseed = c.pseed + i % 3; h.scripts.push_back(s); }
  uint32_t others = ch.range(3, 6);
  // the others: the same codec with other dimensions (what sessions share is shared within a codec), now and then any codec
  bool same_family = ch.coin(3, 4);
  for (uint32_t i = 0; i < others; i++) {
    Config c2;
    if (same_family) {
      c2 = c; c2.pseed = c.pseed + 100 + i;
      uint32_t lim = c.codec == CODEC_RS8 ? 255 : (c.codec == CODEC_RSM && c.m == 4) ? 15 : (c.codec == CODEC_RSM ? 255 : 400);
      c2.k = 1 + (c.k + i) % 9; c2.r = (c.codec == CODEC_LDPC ? c2.N1 : 1) + (c.r + 2 * i + 1) % 5;
      if (c2.k + c2.r > lim) { c2.k = 1 + c2.k % 4; c2.r = (c.codec == CODEC_LDPC ? c2.N1 : 1) + i % 3; }
      if (c2.k == c.k && c2.r == c.r) c2.k += 1;
      if (c2.k + c2.r > lim) c2 = c;
    } else { c2 = gen_config(ch, oo); c2.L = 1 + c2.L % 16; if (c2.k + c2.r > 40) { c2.k = 1 + c2.k % 8; c2.r = 3 + c2.r % 6; if (c2.codec == CODEC_LDPC) c2.N1 = 3; } }
    h.scripts.push_back((ch.coin(1, 2) || force_enc) ? gen_encoder_script_cfg(ch, oo, c2) : gen_decoder_script_cfg(ch, oo, c2));
  }
  // crowd: create, and its first steps up to the first unit of work (first build / first submission)
  size_t first = 0; while (first < base.steps.size() && base.steps[first].op != OP_BUILD && base.steps[first].op != OP_NEW && base.steps[first].op != OP_AVAIL) first++;
  size_t warm = std::min(base.steps.size(), first + 1);
  for (uint32_t i = 0; i < M; i++) for (size_t t = 0; t < 1 + warm; t++) h.inter.push_back(i);
  // M - x of them may leave early
  uint32_t leave = ch.pick<uint32_t>({0, 0, 1, 44});
  for (uint32_t i = 0; i < leave && i < M; i++) for (size_t t = 0; t < base.steps.size() + 1; t++) h.inter.push_back(M - 1 - i);
  for (uint32_t j = 0; j < others; j++) for (size_t t = 0; t < h.scripts[M + j].steps.size() + 2; t++) h.inter.push_back(M + j);
  return h;   // the rest round-robin
}

inline History gen_multi(Chooser& ch, const GenOpts& o) {
  History h;
  { uint32_t sc = ch.next() % 40; if (g_force == SC_NESTED || (sc >= 36 && g_force == SC_NONE)) return gen_nested(ch, o); if (g_force == SC_CROWD || (sc == 35 && o.heavy && g_force == SC_NONE)) return gen_crowd(ch, o); }
  uint32_t ns = ch.range(2, 4);
  GenOpts oo = o; oo.big_L = false;
  for (uint32_t i = 0; i < ns; i++) {
    bool enc = ch.coin(1, 3);
    Script s = enc ? gen_encoder_script(ch, oo) : gen_decoder_script(ch, oo);
    if (i > 0 && (ch.coin(1, 3) || g_force == SC_SIBLING)) {
      // a sibling of the previous script: related parameters (caches and shared scratch state are keyed on some of them)
      Script t = h.scripts[i - 1];
      Config c2 = t.cfg;
      bool was_enc = false; for (auto& st : t.steps) if (st.op == OP_BUILD) was_enc = true;
      uint32_t what = ch.next() % 8;
      bool rsx = (c2.codec == CODEC_RS8 || c2.codec == CODEC_RSM);
      uint32_t lim = c2.codec == CODEC_RS8 ? 255 : (c2.codec == CODEC_RSM && c2.m == 4) ? 15 : (c2.codec == CODEC_RSM ? 255 : 50000);
      bool regen = false;
      if (c2.codec == CODEC_LDPC && what == 0) { c2.seed = c2.seed % 0x7FFFFFFEu + 1; regen = true; }
      else if (what == 1) { c2.pseed ^= 0x5555; }
      else if (c2.codec == CODEC_RSM && c2.m == 8 && c2.k + c2.r <= 15 && what == 2) { c2.m = 4; }
      else if (c2.codec == CODEC_RS8 && what == 2) { c2.codec = CODEC_RSM; c2.m = 8; }
      else if (what == 3 && c2.k + c2.r < lim) { c2.r += 1 + ch.next() % std::min<uint32_t>(8, lim - c2.k - c2.r); regen = true; }          // same k, longer code
      else if (what == 4 && c2.r > (c2.codec == CODEC_LDPC ? c2.N1 : 1)) { c2.r -= 1; regen = true; }                                    // same k, shorter code
      else if (what == 5 && rsx && c2.payload != PAY_IDENTITY) {                                                                            // same k*L, another k
        uint32_t prod = c2.k * c2.L;
        for (uint32_t k2 = 1; k2 + c2.r <= lim && k2 <= prod; k2++) if (k2 != c2.k && prod % k2 == 0 && prod / k2 <= 4096 && (k2 * 7 + ch.next()) % 3 == 0) { c2.k = k2; c2.L = prod / k2; regen = true; break; }
      }
      else if (what == 6 && c2.payload != PAY_IDENTITY) { c2.L = c2.L + 1; }                                                                // same shape, another symbol length
      else if (what == 7 && !was_enc) {                                                                                                     // same code, same numbers of sources and repairs received, other symbols
        uint64_t ps = ch.seed64();
        std::vector<uint32_t> so(c2.k), ro(c2.r); std::iota(so.begin(), so.end(), 0); std::iota(ro.begin(), ro.end(), c2.k);
        seeded_shuffle(so, ps); seeded_shuffle(ro, ps ^ 0x99);
        std::vector<uint32_t> map(c2.k + c2.r); for (uint32_t e = 0; e < c2.k; e++) map[e] = so[e]; for (uint32_t e = 0; e < c2.r; e++) map[c2.k + e] = ro[e];
        for (auto& st : t.steps) { if (st.op == OP_NEW && st.esi < map.size()) st.esi = map[st.esi]; if (st.op == OP_AVAIL) { for (auto& e : st.set) if (e < map.size()) e = map[e]; std::sort(st.set.begin(), st.set.end()); } }
      }
      if (regen) { Script t2 = was_enc ? gen_encoder_script_cfg(ch, oo, c2) : gen_decoder_script_cfg(ch, oo, c2); s = t2; }
      else { t.cfg = c2; s = t; }
    }
    if (ch.next() % 8 == 7) s.verb = 2;   // verbosity is process-wide in the library: a chatty neighbour
    h.scripts.push_back(s);
  }
  // now and then a long-lived noisy neighbour: thousands of duplicate submissions on one session before
  // (and while) the others run (process-wide counters, caches and free lists get exercised)
  if ((o.codecs & GC_LDPC) && ((o.heavy && ch.next() % 32 == 31 && g_force == SC_NONE) || g_force == SC_NOISY)) {
    Script a; a.cfg.codec = CODEC_LDPC; a.cfg.k = ch.range(2, 12); a.cfg.N1 = 3; a.cfg.r = ch.range(3, 12); a.cfg.seed = 1 + ch.next() % 1000; a.cfg.L = 4; a.cfg.payload = PAY_RANDOM; a.role = ROLE_DEC;
    Step sp; sp.op = OP_SETPARAMS; a.steps.push_back(sp);
    uint32_t dups = ch.pick<uint32_t>({1500, 5000, 9000});
    uint32_t e = a.cfg.k + ch.next() % a.cfg.r;
    for (uint32_t i = 0; i < dups; i++) { Step st; st.op = OP_NEW; st.esi = e; st.flag = i & 1; a.steps.push_back(st); }
    h.scripts.insert(h.scripts.begin(), a);
    ns = (uint32_t)h.scripts.size();
    for (size_t i = 0; i < a.steps.size() + 1; i++) h.inter.push_back(0);   // neighbour first (not released yet)
    return h;
  }
  if (ch.next() % 4 == 3) h.reenter = ch.range(1, 6);   // nested calls: another session acts from inside a callback
  size_t total = 0;
  for (auto& s : h.scripts) total += s.steps.size() + 2;
  uint32_t mode = ch.next() % 6;
  uint64_t is = ch.seed64();
  if (mode == 5) {  // one after the other: each session lives its whole life before the next is created (state surviving a release)
    for (uint32_t j = 0; j + 1 < ns; j++) for (size_t i = 0; i < h.scripts[j].steps.size() + 2; i++) h.inter.push_back(j);
  } else
  if (mode == 4) {  // session 0 makes progress and stays open, the others live their whole life, then session 0 goes on
    size_t s0 = h.scripts[0].steps.size(); size_t part = 1 + (s0 > 1 ? is % s0 : 0);
    for (size_t i = 0; i < 1 + part; i++) h.inter.push_back(0);
    for (uint32_t j = 1; j < ns; j++) for (size_t i = 0; i < h.scripts[j].steps.size() + 2; i++) h.inter.push_back(j);
  } else
  if (mode == 0) { for (size_t i = 0; i < total; i++) h.inter.push_back((uint32_t)(i % ns)); }              // round robin
  else if (mode == 1) { uint64_t x = is; for (size_t i = 0; i < total * 2; i++) h.inter.push_back((uint32_t)(splitmix(x) % ns)); }
  else if (mode == 2) {  // session 0 create, all of session 1.., then session 0
    h.inter.push_back(0);
    for (uint32_t j = 1; j < ns; j++) for (size_t i = 0; i < h.scripts[j].steps.size() + 2; i++) h.inter.push_back(j);
  } else {  // bursts
    uint64_t x = is; uint32_t cur = 0;
    for (size_t i = 0; i < total * 2; i++) { if (splitmix(x) % 3 == 0) cur = (uint32_t)(splitmix(x) % ns); h.inter.push_back(cur); }
  }
  return h;
}

}  // namespace hist
