// Property-specific generators, runners and enumerators on top of the common interpreter.
#pragma once
#include "engine.hpp"

namespace hist { namespace special {

inline void init_zygote() {}

inline PropSpec full_spec(const std::string& id, const Tier& t) {
  PropSpec p = prop_spec(id, t);
  return p;
}

inline History generate(const PropSpec& ps, Chooser& ch) {
  switch (ps.kind) {
    case 1: return gen_single_encoder(ch, ps.go);
    case 2: return ch.coin(1, 3) ? gen_single_encoder(ch, ps.go) : gen_single_decoder(ch, ps.go);
    default: return gen_single_decoder(ch, ps.go);
  }
}

inline CaseResult run_any(const History& h, const PropSpec& ps, Stats* st) { return run_case(h, ps, st); }

inline History minimise_any(const History& h, const PropSpec& ps, const std::string& sig) { return minimise(h, ps, sig); }

template <class F>
inline void enumerate(const std::string& prop, const Tier& t, int worker, int nworkers, uint64_t seed, F one, std::string& extra_json) {
  (void)prop; (void)t; (void)worker; (void)nworkers; (void)seed; (void)one; (void)extra_json;
}

}}  // namespace
