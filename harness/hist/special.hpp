// Property-specific generators, runners and enumerators on top of the common interpreter.
#pragma once
#include "engine.hpp"
#include <sys/time.h>
#include <signal.h>

namespace hist { namespace special {

// ---------------------------------------------------------------------------------------------
// pristine-process solo runs (C12): a zygote forked before the first library call forks one child
// per solo run; the child executes one script alone and sends its observation trace back.
struct Ctx2dHook { void (*fn)(const History&, Ctx&, std::map<int, std::shared_ptr<CodeRef>>&) = nullptr; };
static Ctx2dHook g_inject_hook;   // set once inject_2d is defined (2D sessions inside pristine runs)
static int zy_to = -1, zy_from = -1;
static pid_t zy_pid = -1;

inline bool write_all(int fd, const void* p, size_t n) {
  const char* c = (const char*)p;
  while (n) { ssize_t w = write(fd, c, n); if (w <= 0) return false; c += w; n -= (size_t)w; }
  return true;
}
inline bool read_all(int fd, void* p, size_t n) {
  char* c = (char*)p;
  while (n) { ssize_t r = read(fd, c, n); if (r <= 0) return false; c += r; n -= (size_t)r; }
  return true;
}

inline void zygote_loop(int rfd, int wfd) {
  for (;;) {
    uint32_t len;
    if (!read_all(rfd, &len, 4)) _exit(0);
    std::string txt(len, 0);
    if (len && !read_all(rfd, &txt[0], len)) _exit(0);
    pid_t c = fork();
    if (c == 0) {
      // interval timers are not inherited: a library call that never returns would block the worker for ever. After 300 CPU
      // seconds the child is killed by the default action; the parent sees the death (and, for verdict mode, repeats the case
      // in-process under its own per-call watchdog)
      { signal(SIGVTALRM, SIG_DFL); struct itimerval it; memset(&it, 0, sizeof it); it.it_value.tv_sec = 300; setitimer(ITIMER_VIRTUAL, &it, nullptr); }
      History h; std::string err;
      std::vector<uint64_t> out;
      if (txt.compare(0, 9, "#verdict ") == 0) {
        // verdict mode: the whole case, oracles included, runs here (a case is then a pure function of its history)
        unsigned long long en = 0; unsigned cc = 0, cyc = 100000;
        sscanf(txt.c_str(), "#verdict enabled=%llu check_code=%u cycle=%u", &en, &cc, &cyc);
        std::string sig, msg; uint64_t feat = 0; uint32_t failed = 0;
        if (from_text(txt, h, &err)) {
          Ctx cx; cx.enabled = (uint32_t)en; cx.check_code = cc != 0; cx.cycle_limit_n = cyc; cx.want_trace = false;
          std::map<int, std::shared_ptr<CodeRef>> inj;
          if (g_inject_hook.fn) g_inject_hook.fn(h, cx, inj);
          if (!cx.stop) run_history(h, cx, inj.empty() ? nullptr : &inj);
          feat = cx.features;
          if (!cx.fails.empty()) { failed = 1; sig = cx.fails[0].sig; msg = cx.fails[0].msg; }
        }
        uint32_t tag = 0x56455244, sl = (uint32_t)sig.size(), ml = (uint32_t)msg.size();
        write_all(wfd, &tag, 4); write_all(wfd, &failed, 4); write_all(wfd, &feat, 8);
        write_all(wfd, &sl, 4); if (sl) write_all(wfd, sig.data(), sl);
        write_all(wfd, &ml, 4); if (ml) write_all(wfd, msg.data(), ml);
        _exit(0);
      }
      if (from_text(txt, h, &err)) {
        Ctx cx; cx.enabled = 0; cx.want_trace = true;
        std::map<int, std::shared_ptr<CodeRef>> inj;
        if (g_inject_hook.fn) g_inject_hook.fn(h, cx, inj);
        RunResult rr = run_history(h, cx, inj.empty() ? nullptr : &inj);
        out.push_back(cx.features);
        out.push_back(rr.traces.size());
        for (auto& tr : rr.traces) { out.push_back(tr.size()); for (auto& t : tr) out.push_back(t.h); }
      }
      uint32_t n = (uint32_t)out.size(), tag = 0x54524143;
      write_all(wfd, &tag, 4); write_all(wfd, &n, 4);
      if (n) write_all(wfd, out.data(), n * 8);
      _exit(0);
    }
    int status = 0;
    waitpid(c, &status, 0);
    uint32_t tag = 0x454E4421, st = (uint32_t)status;
    write_all(wfd, &tag, 4); write_all(wfd, &st, 4);
  }
}

inline void init_zygote() {
  int a[2], b[2];
  if (pipe(a) || pipe(b)) return;
  pid_t p = fork();
  if (p == 0) { close(a[1]); close(b[0]); zygote_loop(a[0], b[1]); _exit(0); }
  close(a[0]); close(b[1]);
  zy_to = a[1]; zy_from = b[0]; zy_pid = p;
}

// runs a history in a pristine forked process; false if the child died or sent nothing
inline bool pristine_run(const History& h, std::vector<std::vector<uint64_t>>& traces, uint64_t* features, uint32_t* status) {
  std::string txt = to_text(h);
  uint32_t len = (uint32_t)txt.size();
  traces.clear(); *status = 0; *features = 0;
  if (zy_to < 0) return false;
  if (!write_all(zy_to, &len, 4) || !write_all(zy_to, txt.data(), len)) return false;
  bool got = false;
  std::vector<uint64_t> raw;
  for (;;) {
    uint32_t tag, v;
    if (!read_all(zy_from, &tag, 4) || !read_all(zy_from, &v, 4)) return false;
    if (tag == 0x54524143) { raw.resize(v); if (v && !read_all(zy_from, raw.data(), v * 8)) return false; got = v >= 2; }
    else if (tag == 0x454E4421) { *status = v; break; }
    else return false;
  }
  if (!got || *status != 0) return false;
  *features = raw[0];
  size_t ns = (size_t)raw[1], pos = 2;
  for (size_t i = 0; i < ns && pos < raw.size(); i++) { size_t n = (size_t)raw[pos++]; traces.emplace_back(raw.begin() + pos, raw.begin() + std::min(raw.size(), pos + n)); pos += n; }
  return traces.size() == ns;
}

// runs a whole case (oracles included) in a pristine forked process; false if the child died or sent nothing
inline bool pristine_verdict(const History& h, uint32_t enabled, bool check_code, uint32_t cycle, uint64_t* features, bool* failed, std::string* sig, std::string* msg, uint32_t* status) {
  char hd[128]; snprintf(hd, sizeof hd, "#verdict enabled=%llu check_code=%u cycle=%u\n", (unsigned long long)enabled, check_code ? 1u : 0u, cycle);
  std::string txt = std::string(hd) + to_text(h);
  uint32_t len = (uint32_t)txt.size();
  *status = 0; *features = 0; *failed = false;
  if (zy_to < 0) return false;
  if (!write_all(zy_to, &len, 4) || !write_all(zy_to, txt.data(), len)) return false;
  bool got = false;
  for (;;) {
    uint32_t tag;
    if (!read_all(zy_from, &tag, 4)) return false;
    if (tag == 0x56455244) {
      uint32_t f, sl, ml;
      if (!read_all(zy_from, &f, 4) || !read_all(zy_from, features, 8) || !read_all(zy_from, &sl, 4)) return false;
      sig->assign(sl, 0); if (sl && !read_all(zy_from, &(*sig)[0], sl)) return false;
      if (!read_all(zy_from, &ml, 4)) return false;
      msg->assign(ml, 0); if (ml && !read_all(zy_from, &(*msg)[0], ml)) return false;
      *failed = f != 0; got = true;
    } else if (tag == 0x454E4421) { uint32_t v; if (!read_all(zy_from, &v, 4)) return false; *status = v; break; }
    else return false;
  }
  return got && *status == 0;
}

// ---------------------------------------------------------------------------------------------
struct Extra { bool check_code = false; uint32_t cycle_limit_n = 100000; std::set<std::string> known; };
static Extra g_extra;

inline PropSpec full_spec(const std::string& id, const Tier& t) {
  PropSpec p = prop_spec(id, t);
  GenOpts g;
  if (t.thorough) { g.max_k_ldpc = 400; g.max_n_ldpc = 700; } else { g.max_k_ldpc = 60; g.max_n_ldpc = 120; }
  { std::set<std::string> keep = g_extra.known; g_extra = Extra(); g_extra.known = keep; }
  if (id == "C05") {
    p.id = "C05"; p.enabled = O_CODE | O_ENC; p.kind = 4; g.codecs = GC_LDPC;
    if (t.thorough) { g.max_k_ldpc = 3000; g.max_n_ldpc = 5000; } else { g.max_k_ldpc = 300; g.max_n_ldpc = 600; }
    p.go = g; g_extra.check_code = true;
    p.nontrivial = [](uint64_t f) { return (f & F_EXTRA) || (f & F_MULTI); };
    p.rule = "LDPC (k, r, N1, seed) with an identity-payload encoder session and a decoder session, after a generated prefix of 0-3 other sessions (created/used/released or left alive); non-trivial = the reference construction took the 'no choice left' or 'extra entries' branch, or the prefix is non-empty; distinct = distinct history text";
  } else if (id == "C09") {
    p.id = "C09"; p.enabled = O_PARAM | O_SOUND | O_ENC | O_MDS | O_STATUS; p.kind = 6; p.go = g; g_extra.cycle_limit_n = 3000;
    p.nontrivial = [](uint64_t f) { return (f & (F_BOUNDARY | F_BADCALL | F_REJECTED)) != 0; };
    p.rule = "configuration from the boundary grid (0, 1, 2, each limit-1/limit/limit+1, 2^16+-1, 2^31-1, 2^31, 2^32-1 for k, r, L; m, N1, seed sets) or random interior point, followed by a full cycle when accepted and feasible, with single-argument corruptions of valid calls; non-trivial = a coordinate at a limit, or a rejected configuration, or a corrupted call; distinct = distinct history text";
  } else if (id == "C12") {
    p.id = "C12"; p.enabled = O_INDEP; p.kind = 3; g.max_k_ldpc = t.thorough ? 120 : 40; g.max_n_ldpc = t.thorough ? 250 : 80; g.max_n_rs = 60; p.go = g;
    p.nontrivial = [](uint64_t f) { return (f & F_MULTI) != 0; };
    p.rule = "2-4 session scripts over all codecs (siblings differing in one parameter included) and a generated interleaving; each script is also run alone in a pristine forked process and the observation traces (statuses, repair bytes, completion, table contents, callback multisets) are compared; non-trivial = >= 2 sessions alive at once with interleaved steps; distinct = distinct history text";
  } else if (id == "C15") {
    p.id = "C15"; p.enabled = O_LASTNULL | O_SOUND; p.kind = 5; g.codecs = GC_LDPC; g.even_n1_bias = 1;
    if (t.thorough) { g.max_k_ldpc = 2000; g.max_n_ldpc = 3000; } else { g.max_k_ldpc = 200; g.max_n_ldpc = 400; }
    p.go = g;
    p.nontrivial = [](uint64_t f) { return (f & F_LASTNULL) != 0; };
    p.rule = "LDPC configuration biased to even N1; encoder session (all repairs, generated payload) and decoder session whose sender skips symbol n-1; non-trivial = IS_LAST_SYMBOL_NULL reported true; distinct = distinct history text";
  }
  else if (id == "C16") {
    p.id = "C16"; p.enabled = O_2D | O_SOUND | O_LEAK | O_MEM; p.kind = 7; p.go = g;
    p.nontrivial = [](uint64_t f) { return ((f & F_DECODED) != 0) || ((f & F_UNSOLV_GEK) != 0); };
    p.rule = "every (k, r) in 0..17 x 0..12 is offered to of_set_fec_parameters; for each accepted pair the check sets are read off the encoder on an identity payload (each repair built alone) and must form the d x l product structure; the encoder must satisfy every check on generated payloads; the decoder is run on every received subset (2^n; complete for n <= 13 in the quick tier and n <= 20 in the thorough tier, 5000 resp. 400000 seeded patterns per larger code) through both submission APIs followed by finish, plus sampled orders and release points; non-trivial = pattern with a lost source that is recovered, or >= k received and not recoverable; distinct = distinct history text";
  }
  return p;
}

inline void apply_extra(Ctx& cx) { cx.check_code = g_extra.check_code; cx.cycle_limit_n = g_extra.cycle_limit_n; cx.known_sigs = g_extra.known; }

// ---- C05 -------------------------------------------------------------------------------------
// Marathon with a revisit: dozens of sessions one after the other in one process; a code X is configured, then filler
// sessions whose source-symbol counts add up so that X is configured again exactly W + d columns later (W a power of two
// or one less: 2^8, 2^16, 2^17-2; d in -1..1), then two more codes. Whatever the construction counts across sessions
// (columns, rows, draws) wraps somewhere along the way; every session's matrix is compared with the reference.
inline History gen_marathon(const PropSpec& ps, Chooser& ch) {
  (void)ps;
  History h;
  auto mk = [&](uint32_t k, uint32_t r, uint32_t N1, uint32_t seed, int role) {
    Script s; s.cfg.codec = CODEC_LDPC; s.cfg.k = k; s.cfg.r = std::max(r, N1); s.cfg.N1 = N1; s.cfg.seed = seed; s.cfg.L = 1; s.cfg.payload = PAY_RANDOM; s.cfg.pseed = k * 7 + r;
    s.role = role; s.cbmode = 1;
    Step sp; sp.op = OP_SETPARAMS; s.steps.push_back(sp);
    return s;
  };
  uint32_t seedX = 1 + ch.next() % 0x7FFFFFFEu;
  uint32_t kX = ch.range(60, 200), rX = kX * ch.range(2, 3) + ch.range(0, 5), n1X = ch.range(3, 6);
  if (ch.coin(1, 2)) h.scripts.push_back(mk(ch.range(2, 40), ch.range(3, 30), 3, 1 + ch.next() % 1000, ROLE_DEC));                 // something small first
  if (ch.coin(2, 3)) h.scripts.push_back(mk(ch.range(500, 1500), ch.range(1500, 3000), ch.range(3, 5), 1 + ch.next() % 100000, ch.coin(1, 2) ? ROLE_ENC : ROLE_DEC));   // many rows
  h.scripts.push_back(mk(kX, rX, n1X, seedX, ch.coin(1, 2) ? ROLE_ENC : ROLE_DEC));
  uint32_t W = ch.pick<uint32_t>({65535, 65535, 65536, 131070, 256, 255, 65537});
  int d = (int)(ch.next() % 3) - 1;
  int64_t F = (int64_t)W + d - (int64_t)kX;
  uint64_t fs = ch.seed64();
  bool filler_lowrows = ch.coin(2, 3);
  while (F > 0) {
    uint32_t k = (uint32_t)std::min<int64_t>(F, 600 + (int64_t)(splitmix(fs) % 401));
    if (F - k > 0 && F - k < 3) k = (uint32_t)F;   // no tiny remainder
    // fillers are high-rate blocks (few equations) or rate 2/3 blocks, as the case says: what a session clears or resizes depends on its own dimensions
    h.scripts.push_back(mk(k, std::max<uint32_t>(3, filler_lowrows ? k / 12 : k / 2), 3, 1 + (uint32_t)(splitmix(fs) % 100000), (splitmix(fs) & 1) ? ROLE_ENC : ROLE_DEC));
    F -= k;
  }
  h.scripts.push_back(mk(kX, rX, n1X, seedX, ch.coin(1, 2) ? ROLE_ENC : ROLE_DEC));                                                  // X again
  h.scripts.push_back(mk(kX, rX, n1X, 1 + ch.next() % 0x7FFFFFFEu, ROLE_DEC));                                                      // same shape, another seed
  h.scripts.push_back(mk(ch.range(800, 1200), ch.range(400, 600), 3, 1 + ch.next() % 0x7FFFFFFEu, ROLE_ENC));                       // an ordinary rate 2/3 block
  for (size_t j = 0; j < h.scripts.size(); j++) for (size_t i = 0; i < h.scripts[j].steps.size() + 2; i++) h.inter.push_back((uint32_t)j);
  return h;
}

inline History gen_code_case(const PropSpec& ps, Chooser& ch) {
  if (g_force == SC_MARATHON || (ps.go.heavy && g_force == SC_NONE && ch.next() % 96 == 95)) return gen_marathon(ps, ch);
  History h;
  GenOpts small; small.max_k_ldpc = 40; small.max_n_ldpc = 80; small.max_n_rs = 40; small.big_L = false;
  uint32_t npre = ch.next() % 4;
  if (g_force == SC_C05VERB && npre == 0) npre = 1;
  for (uint32_t i = 0; i < npre; i++) { h.scripts.push_back(ch.coin(1, 2) ? gen_encoder_script(ch, small) : gen_decoder_script(ch, small)); if (ch.coin(1, 3)) h.scripts.back().verb = ch.pick<uint32_t>({2, 1, 2}); }
  if (g_force == SC_C05VERB) h.scripts[0].verb = 2;
  Config c = gen_config(ch, ps.go);
  // grid-flavoured k values now and then
  if (ch.coin(1, 4)) {
    c.k = ch.pick<uint32_t>({1, 2, 3, 5, 10, 31, 32, 33, 100, 1000});
    if (c.k > ps.go.max_k_ldpc) c.k = ps.go.max_k_ldpc;
    if (c.k + c.r > ps.go.max_n_ldpc) c.r = std::max<uint32_t>(c.N1, ps.go.max_n_ldpc - c.k);
  }
  c.payload = PAY_IDENTITY;
  // now and then a block of tens of thousands of symbols: deviations of the PRNG scaling of the order of
  // 2^-31 per draw only show in matrices built from ~10^5 draws (one-byte symbols keep this cheap)
  bool big = ch.coin(1, 24) || g_force == SC_C05BIG;
  if (g_force == SC_C05VERB) big = false;
  if (big) {
    uint32_t kmax = ps.go.max_k_ldpc >= 3000 ? 40000 : 24000;
    c.k = ch.range(4000, kmax);
    c.N1 = ch.range(3, 10);
    c.r = std::max<uint32_t>(c.N1, ch.pick<uint32_t>({c.k / 2, c.k / 4, c.k / 9, 2000}));
    if (c.k + c.r > 50000) c.r = 50000 - c.k;
    c.payload = PAY_RANDOM; c.L = 1;
  }
  Script e; e.cfg = c; e.role = ch.coin(1, 5) ? ROLE_BOTH : ROLE_ENC;
  { Step sp; sp.op = OP_SETPARAMS; e.steps.push_back(sp); }
  for (uint32_t i = 0; i < c.r; i++) { Step b; b.op = OP_BUILD; b.esi = c.k + i; e.steps.push_back(b); }
  Script d; d.cfg = c; d.role = ch.coin(1, 4) ? ROLE_BOTH : ROLE_DEC; d.cbmode = 1;
  { Step sp; sp.op = OP_SETPARAMS; d.steps.push_back(sp); }
  std::vector<uint32_t> rec = gen_received(ch, ps.go, c);
  if (rec.size() > 200) rec.resize(200);
  for (uint32_t x : rec) { Step s; s.op = OP_NEW; s.esi = x; d.steps.push_back(s); }
  bool dec_first = ch.coin(1, 2);
  if (dec_first) { h.scripts.push_back(d); h.scripts.push_back(e); } else { h.scripts.push_back(e); h.scripts.push_back(d); }
  // interleaving: prefix sessions first; each either complete (incl. release) or left alive
  for (uint32_t i = 0; i < npre; i++) {
    bool alive = ch.coin(1, 3);
    size_t cnt = h.scripts[i].steps.size() + (alive ? 1 : 2);
    for (size_t j = 0; j < cnt; j++) h.inter.push_back(i);
  }
  // the pair itself: one after the other | the first makes progress, stays open while the second lives | first
  // complete but not released | generated interleaving (the code of a session must not depend on a live peer's state)
  uint32_t pa = npre, pb = npre + 1, pat = big ? 0 : ch.next() % 6;
  size_t sa = h.scripts[pa].steps.size(), sb = h.scripts[pb].steps.size();
  if (pat == 1 || pat == 4) { size_t part = 1 + (sa > 1 ? ch.next() % sa : 0); for (size_t j = 0; j < 1 + part; j++) h.inter.push_back(pa); for (size_t j = 0; j < sb + 2; j++) h.inter.push_back(pb); }
  else if (pat == 2) { uint64_t x = ch.seed64(); for (size_t j = 0; j < 2 * (sa + sb + 4); j++) h.inter.push_back(splitmix(x) & 1 ? pa : pb); }
  else if (pat == 3) { for (size_t j = 0; j < 1 + sa; j++) h.inter.push_back(pa); for (size_t j = 0; j < sb + 2; j++) h.inter.push_back(pb); }
  else if (pat == 5) { for (size_t j = 0; j < sa + 2; j++) h.inter.push_back(pa); }   // the first one's whole life (released) before the second is created
  // now and then a late third session of the same code: created when the pair has done its work (both still open, or released)
  if (!big && ch.coin(1, 3)) {
    Script t3; t3.cfg = c; t3.role = ch.coin(1, 2) ? ROLE_DEC : ROLE_ENC;
    { Step sp; sp.op = OP_SETPARAMS; t3.steps.push_back(sp); }
    if (t3.role == ROLE_ENC) for (uint32_t i = 0; i < std::min<uint32_t>(c.r, 40); i++) { Step b; b.op = OP_BUILD; b.esi = c.k + i; t3.steps.push_back(b); }
    else for (size_t i = 0; i < rec.size() && i < 60; i++) { Step st; st.op = OP_NEW; st.esi = rec[rec.size() - 1 - i]; t3.steps.push_back(st); }
    bool released = ch.coin(1, 2);
    // complete the pair's schedule explicitly (all remaining steps, with or without the releases), then the third
    std::vector<size_t> used(h.scripts.size(), 0); for (uint32_t v : h.inter) if (v < used.size()) used[v]++;
    for (uint32_t q : {pa, pb}) { size_t total = h.scripts[q].steps.size() + (released ? 2 : 1); for (size_t j = used[q]; j < total; j++) h.inter.push_back(q); }
    h.scripts.push_back(t3);
  }
  return h;
}

// ---- C15 -------------------------------------------------------------------------------------
inline History gen_lastnull_case(const PropSpec& ps, Chooser& ch) {
  History h;
  Config c = gen_config(ch, ps.go);
  if (c.payload == PAY_ZERO) c.payload = PAY_RANDOM;
  // boundary class: low-rate codes where the number of extra entries (about 2(n-k) - N1 k) is a multiple of 256
  uint32_t lnc = ch.next() % 12, lnd = ch.next() % 200;
  if (g_force == SC_LN256) lnc = 11; else if (g_force == SC_LN65536) { lnc = 0; lnd = 199; } else if (g_force != SC_NONE) { lnc = 0; lnd = 0; }
  if (lnc == 11) {
    c.N1 = ch.pick<uint32_t>({4, 6, 8, 10}); c.k = ch.range(1, 40); uint32_t m256 = ch.range(1, 2);
    c.r = (256 * m256 + c.N1 * c.k) / 2 + ch.pick<uint32_t>({0, 0, 0, 1});
    c.L = ch.range(1, 9);
  } else if (lnd == 199) {
    // the same boundary one counter width up: 2(n-k) - N1 k = 65536 (blocks of ~33 000 one-byte symbols)
    c.N1 = ch.pick<uint32_t>({4, 6, 8, 10}); c.k = ch.range(1, 30);
    c.r = 32768 + c.N1 * c.k / 2 + ch.pick<uint32_t>({0, 0, 0, 1});
    c.L = 1; c.payload = PAY_RANDOM;
  }
  Script e; e.cfg = c; e.role = ROLE_ENC;
  { Step sp; sp.op = OP_SETPARAMS; e.steps.push_back(sp); }
  for (uint32_t i = 0; i < c.r; i++) { Step b; b.op = OP_BUILD; b.esi = c.k + i; b.flag = ch.coin(1, 8); e.steps.push_back(b); }
  Script d; d.cfg = c; d.role = ch.coin(1, 5) ? ROLE_BOTH : ROLE_DEC; d.cbmode = 1;
  { Step sp; sp.op = OP_SETPARAMS; d.steps.push_back(sp); }
  std::vector<uint32_t> rec = gen_received(ch, ps.go, c);
  uint32_t n = c.k + c.r;
  bool use_avail = ch.coin(1, 3);
  if (use_avail) { Step a; a.op = OP_AVAIL; for (uint32_t x : rec) if (x != n - 1) a.set.push_back(x); std::sort(a.set.begin(), a.set.end()); d.steps.push_back(a); }
  else {
    // the claim is asked again while symbols arrive (every few submissions), not only right after configuration
    uint32_t every = ch.pick<uint32_t>({0, 1, 2, 3, 5, 9}), cnt = 0;
    for (uint32_t x : rec) { if (x == n - 1) continue; Step s; s.op = OP_NEW; s.esi = x; d.steps.push_back(s); if (every && ++cnt % every == 0) push_query(d, 1); }
  }
  if (ch.coin(2, 3)) { Step f; f.op = OP_FINISH; d.steps.push_back(f); }
  // lifetimes: side by side (round robin) | encoder's whole life first | decoder's whole life first | first one finished but still open
  uint32_t life = ch.next() % 5;
  if (life == 2) { h.scripts.push_back(d); h.scripts.push_back(e); } else { h.scripts.push_back(e); h.scripts.push_back(d); }
  if (life >= 1 && life <= 3) { size_t cnt = h.scripts[0].steps.size() + (life == 3 ? 1 : 2); for (size_t j = 0; j < cnt; j++) h.inter.push_back(0); }
  return h;
}

// ---- C09 -------------------------------------------------------------------------------------
static const uint32_t U31 = 0x7FFFFFFFu;
inline std::vector<uint32_t> boundary_counts(uint32_t lim) {
  std::vector<uint32_t> v = {0, 1, 2, lim - 1, lim, lim + 1, 65535, 65536, 65537, U31, 0x80000000u, 0xFFFFFFFFu};
  std::sort(v.begin(), v.end()); v.erase(std::unique(v.begin(), v.end()), v.end());
  return v;
}
inline void add_cycle(Chooser& ch, Script& s, bool with_bad) {
  const Config& c = s.cfg;
  uint32_t k = c.k, n = c.k + c.r;
  uint64_t bs = ch.seed64();
  auto maybe_bad = [&]() {
    if (!with_bad || splitmix(bs) % 3) return;
    Step b; b.op = OP_BAD; b.esi = (uint32_t)(splitmix(bs) % BAD_KINDS); b.flag = (uint32_t)splitmix(bs);
    if (b.esi == BAD_NEW_ESI) b.flag = (uint32_t)(splitmix(bs) % 4 == 0 ? 0xFFFFFFFFu : splitmix(bs) % 3);
    s.steps.push_back(b);
  };
  maybe_bad();
  if (s.role == ROLE_ENC || (s.role == ROLE_BOTH && ch.coin(1, 2))) {
    for (uint32_t e = k; e < n && e < k + 40; e++) { Step b; b.op = OP_BUILD; b.esi = e; b.flag = (uint32_t)(splitmix(bs) & 1); s.steps.push_back(b); maybe_bad(); }
  } else {
    // receive a random k-subset (RS) / everything but a few (LDPC), then finish
    std::vector<uint32_t> all(n); std::iota(all.begin(), all.end(), 0);
    seeded_shuffle(all, ch.seed64());
    uint32_t cnt = c.codec == CODEC_LDPC ? (n > 3 ? n - (uint32_t)(splitmix(bs) % 3) : n) : k;
    if (cnt > n) cnt = n;
    for (uint32_t i = 0; i < cnt; i++) { Step st; st.op = OP_NEW; st.esi = all[i]; s.steps.push_back(st); if (i % 8 == 0) maybe_bad(); }
    Step f; f.op = OP_FINISH; s.steps.push_back(f);
    maybe_bad();
    push_query(s);
  }
}
inline Script param_script(const Config& c, int role) {
  Script s; s.cfg = c; s.role = role;
  Step sp; sp.op = OP_SETPARAMS; s.steps.push_back(sp);
  return s;
}
inline History gen_param_case(const PropSpec& ps, Chooser& ch) {
  History h;
  Config c;
  uint32_t which = ch.next() % 4;
  c.payload = PAY_RANDOM; c.pseed = ch.next();
  int role = ch.pick<int>({ROLE_DEC, ROLE_ENC, ROLE_BOTH});
  bool boundary = ch.coin(2, 3);
  if (which <= 1) {
    c.codec = which == 0 ? CODEC_RS8 : CODEC_RSM;
    c.m = which == 0 ? 8 : ch.pick<uint32_t>({8, 4, 4, 8, 0, 1, 3, 5, 7, 9, 16, 65535});
    uint32_t lim = (which == 1 && c.m == 4) ? 15 : 255;
    if (boundary) {
      std::vector<uint32_t> bc = boundary_counts(lim);
      c.k = bc[ch.next() % bc.size()];
      uint32_t rc = ch.next() % 6;
      // r relative to the limit on n
      c.r = rc == 0 ? (c.k <= lim ? lim - c.k : 0) : rc == 1 ? (c.k <= lim ? lim - c.k + 1 : 1) : rc == 2 ? (c.k < lim ? lim - c.k - 1 : 0) : rc == 3 ? 1 : rc == 4 ? 0 : bc[ch.next() % bc.size()];
    } else { uint32_t n = ch.range(2, lim); c.k = ch.range(1, n - 1); c.r = n - c.k; }
    c.L = boundary ? ch.pick<uint32_t>({1, 0, 2, 65535, 65536, 1u << 20, 0xFFFFFFFFu}) : ch.range(1, 64);
  } else {
    c.codec = CODEC_LDPC;
    uint32_t lim, limk; ldpc_limits(&limk, &lim);
    if (boundary) {
      std::vector<uint32_t> bc = boundary_counts(lim);
      bc.push_back(3); bc.push_back(10); bc.push_back(100);
      c.k = bc[ch.next() % bc.size()];
      uint32_t rc = ch.next() % 7;
      c.r = rc == 0 ? (c.k <= lim ? lim - c.k : 0) : rc == 1 ? (c.k <= lim ? lim - c.k + 1 : 1) : rc == 2 ? (c.k < lim ? lim - c.k - 1 : 0) : rc == 3 ? 1 : rc == 4 ? 0 : rc == 5 ? ch.range(3, 20) : bc[ch.next() % bc.size()];
      uint32_t nc = ch.next() % 9;
      c.N1 = nc == 0 ? 3 : nc == 1 ? 0 : nc == 2 ? 1 : nc == 3 ? 2 : nc == 4 ? std::min<uint32_t>(255, c.r ? c.r - 1 : 0) : nc == 5 ? std::min<uint32_t>(255, c.r) : nc == 6 ? std::min<uint32_t>(255, c.r + 1) : nc == 7 ? 255 : ch.range(3, 12);
      c.seed = ch.pick<uint32_t>({1, 0, 0x7FFFFFFEu, 0x7FFFFFFFu, 0x80000000u, 0xFFFFFFFFu, 2, 12345});
    } else {
      c.k = ch.range(1, 200); c.N1 = ch.range(3, 10); c.r = c.N1 + ch.range(0, 2 * c.k); c.seed = (ch.next() % 0x7FFFFFFEu) + 1;
    }
    c.L = boundary ? ch.pick<uint32_t>({1, 0, 2, 65535, 65536, 1u << 20, 0xFFFFFFFFu}) : ch.range(1, 64);
    // a 4 GiB symbol cannot be cycled here and its allocation failure is not a validation verdict:
    // 2^32-1 only on sessions that allocate nothing of that size at configuration time
    if (c.L == 0xFFFFFFFFu && (role & ROLE_DEC) && (c.N1 % 2 == 0)) c.L = 65536;
  }
  // accepted configurations with tens of thousands of symbols cost ~0.3 s each under ASan: keep one in eight
  if (cfg_valid(c) == 1 && (uint64_t)c.k + c.r > 3000 && !ch.coin(1, 8)) { c.k = ch.pick<uint32_t>({1, 2, 3, 10}); c.r = std::max<uint32_t>(c.N1, ch.pick<uint32_t>({3, 4, 10, 20})); if (c.N1 > c.r) c.N1 = c.r; if (c.N1 < 3) { c.N1 = 3; c.r = std::max<uint32_t>(c.r, 3); } }
  Script s = param_script(c, role);
  if (c.codec == CODEC_RSM && ch.coin(1, 3)) {   // field size announced beforehand through the control parameter, maybe another one
    Step sc; sc.op = OP_SETCTRL; sc.flag = ch.pick<uint32_t>({8, 4, 4, 8, 0, 5, 16});
    s.steps.insert(s.steps.begin(), sc);
  }
  int valid = cfg_valid(c);
  uint64_t n = (uint64_t)c.k + c.r;
  if (valid == 1 && n <= 3000 && n * (uint64_t)c.L <= (1u << 24)) add_cycle(ch, s, ch.coin(1, 2));
  else if (ch.coin(1, 3)) { Step b; b.op = OP_BAD; b.esi = BAD_NULL_SES; b.flag = ch.next(); s.steps.push_back(b); }
  h.scripts.push_back(s);
  return h;
}
inline bool is_boundary(const Config& c) {
  uint32_t lk, ln; ldpc_limits(&lk, &ln);
  uint32_t lim = c.codec == CODEC_LDPC ? ln : (c.codec == CODEC_RSM && c.m == 4) ? 15 : 255;
  uint64_t n = (uint64_t)c.k + c.r;
  auto near = [](uint64_t v, uint64_t l) { return v + 1 >= l && v <= l + 1; };
  if (c.k <= 1 || c.r <= 1 || c.L <= 1 || near(c.k, lim) || near(n, lim)) return true;
  if (c.codec == CODEC_LDPC && (c.N1 <= 3 || near(c.N1, c.r) || c.seed <= 1 || c.seed >= 0x7FFFFFFEu)) return true;
  if (c.codec == CODEC_RSM && c.m != 8) return true;
  return false;
}

// ---- C16 -------------------------------------------------------------------------------------
// Read the 2D-parity code off the library's encoder (identity payload, each repair built alone),
// check the product structure, and return the reference code + codeword for cfg's payload.
// status: 0 accepted, 1 rejected by of_set_fec_parameters, 2 structure violation (msg set)
struct Obs2D { int status = 1; std::string sig, msg; std::shared_ptr<CodeRef> code; uint32_t d = 0, l = 0; };
inline Obs2D observe_2d(const Config& cfg) {
  Obs2D o;
  uint32_t k = cfg.k, r = cfg.r, n = k + r;
  void* ses = nullptr;
#ifndef VERIF_NOSAN
  at::at_tag = 900;
#endif
  if (sh_create(&ses, CODEC_P2D, ROLE_ENC) != 0 || !ses) { o.status = 2; o.sig = "create_failed"; o.msg = "of_create_codec_instance failed for the 2D codec"; return o; }
  uint32_t Lid = (k + 7) / 8; if (!Lid) Lid = 1;
  int st = sh_set_params(ses, CODEC_P2D, k, r, Lid, 0, 0, 0);
  if (st != 0) { sh_release(ses); o.status = 1; return o; }
  o.status = 0;
  std::vector<std::vector<uint8_t>> src(k, std::vector<uint8_t>(Lid, 0));
  for (uint32_t i = 0; i < k; i++) src[i][i / 8] = (uint8_t)(1u << (i % 8));
  std::vector<std::vector<uint32_t>> S(r);
  std::vector<void*> tab(n);
  for (uint32_t j = 0; j < r && o.status == 0; j++) {
    for (uint32_t i = 0; i < n; i++) tab[i] = i < k ? (void*)src[i].data() : nullptr;
    std::vector<uint8_t> out(Lid, 0xAA);
    tab[k + j] = out.data();
    int bs = sh_build(ses, tab.data(), k + j);
    if (bs != 0) { o.status = 2; o.sig = "check_without_own_repair"; o.msg = "repair " + std::to_string(k + j) + " cannot be built from the source symbols alone (status " + std::to_string(bs) + "): its check does not have its own repair symbol"; break; }
    for (uint32_t i = 0; i < k; i++) if (out[i / 8] & (1u << (i % 8))) S[j].push_back(i);
    for (uint32_t b = k; b < Lid * 8; b++) if (out[b / 8] & (1u << (b % 8))) { o.status = 2; o.sig = "repair_not_linear_in_sources"; o.msg = "repair symbol has bits outside the identity payload"; }
  }
  sh_release(ses);
  if (o.status != 0) return o;
  auto bad = [&](const std::string& sig, const std::string& msg) { o.status = 2; o.sig = sig; o.msg = "(k=" + std::to_string(k) + ", r=" + std::to_string(r) + ") " + msg; };
  if (k == 0 || r == 0) { bad("degenerate_accepted", "accepted although no product code exists"); return o; }
  std::vector<uint32_t> cover(k, 0);
  for (auto& sj : S) for (uint32_t i : sj) cover[i]++;
  for (uint32_t i = 0; i < k; i++) if (cover[i] != 2) { bad("source_not_in_two_checks", "source symbol " + std::to_string(i) + " belongs to " + std::to_string(cover[i]) + " checks, not to one row check and one column check"); return o; }
  auto inter = [&](const std::vector<uint32_t>& a, const std::vector<uint32_t>& b) { uint32_t c = 0; for (uint32_t x : a) if (std::find(b.begin(), b.end(), x) != b.end()) c++; return c; };
  std::vector<uint32_t> A{0}, B;
  for (uint32_t j = 1; j < r; j++) (inter(S[0], S[j]) == 0 ? A : B).push_back(j);
  for (size_t a = 0; a < A.size(); a++) for (size_t b = a + 1; b < A.size(); b++) if (inter(S[A[a]], S[A[b]])) { bad("not_a_product_code", "checks " + std::to_string(A[a]) + " and " + std::to_string(A[b]) + " of one family overlap"); return o; }
  for (size_t a = 0; a < B.size(); a++) for (size_t b = a + 1; b < B.size(); b++) if (inter(S[B[a]], S[B[b]])) { bad("not_a_product_code", "checks " + std::to_string(B[a]) + " and " + std::to_string(B[b]) + " of one family overlap"); return o; }
  for (uint32_t a : A) for (uint32_t b : B) if (inter(S[a], S[b]) != 1) { bad("not_a_product_code", "row check " + std::to_string(a) + " and column check " + std::to_string(b) + " share " + std::to_string(inter(S[a], S[b])) + " source symbols, not exactly one"); return o; }
  size_t ua = 0, ub = 0; for (uint32_t a : A) ua += S[a].size(); for (uint32_t b : B) ub += S[b].size();
  if (ua != k || ub != k || A.size() * B.size() != k || A.size() + B.size() != r) { bad("not_a_product_code", "families of " + std::to_string(A.size()) + " and " + std::to_string(B.size()) + " checks do not form a d x l product with d*l=k, d+l=r"); return o; }
  o.d = (uint32_t)A.size(); o.l = (uint32_t)B.size();
  auto code = std::make_shared<CodeRef>();
  code->cfg = cfg; code->k = k; code->r = r; code->n = n; code->L = effective_L(cfg); code->binary = true;
  code->eqs.resize(r);
  for (uint32_t j = 0; j < r; j++) { code->eqs[j] = S[j]; code->eqs[j].push_back(k + j); }
  std::vector<std::vector<uint8_t>> pay;
  CodeRef::fill_payload(cfg, code->L, pay);
  code->cw.assign(n, std::vector<uint8_t>(code->L, 0));
  for (uint32_t i = 0; i < k; i++) code->cw[i] = pay[i];
  for (uint32_t j = 0; j < r; j++) for (uint32_t i : S[j]) for (uint32_t b = 0; b < code->L; b++) code->cw[k + j][b] ^= pay[i][b];
  code->index_rows();
  o.code = code;
  return o;
}

// every 2D-parity script of a history gets the code observed from the library's encoder injected
inline void inject_2d(const History& h, Ctx& cx, std::map<int, std::shared_ptr<CodeRef>>& inj) {
  static std::map<std::string, Obs2D> cache;
  for (size_t i = 0; i < h.scripts.size(); i++) {
    const Config& c = h.scripts[i].cfg;
    if (c.codec != CODEC_P2D) continue;
    std::string key = std::to_string(c.k) + "/" + std::to_string(c.r) + "/" + std::to_string(c.L) + "/" + std::to_string(c.payload) + "/" + std::to_string(c.pseed);
    auto it = cache.find(key);
    if (it == cache.end()) { if (cache.size() > 64) cache.clear(); it = cache.emplace(key, observe_2d(c)).first; }
    if (it->second.status == 2) cx.fail(O_2D, it->second.sig, it->second.msg);
    else if (it->second.status == 0) inj[(int)i] = it->second.code;
    else cx.features |= F_REJECTED;
  }
}

inline History p2d_history(uint32_t k, uint32_t r, uint64_t mask, int api, int order, uint64_t oseed, bool finish, int payload, uint64_t pseed, uint32_t L, int cut);

// Deep staircase unroll (adversarial arrival order built from the reference code): every source symbol
// but two arrives first, `a` (in equation 0) and `s` (whose first equation j lies thousands of rows
// further); then repair k+j, twice; then `a`, which unrolls the staircase through j nested rebuilds and
// finally yields `s`. Block sizes of the order of 10^4 symbols, one-byte symbols.
inline History gen_deep_chain(Chooser& ch, const GenOpts& o, bool with_finish) {
  History h; Script s;
  Config& c = s.cfg;
  // unroll depth classes: around 4096 (blocks of ~12 000 symbols), around 8192 and around 16384 (blocks of ~25 000 / ~40 000)
  uint32_t dclass = ch.pick<uint32_t>({0, 0, 1, 2});
  if (g_force == SC_DEEP0) dclass = 0; else if (g_force == SC_DEEP1) dclass = 1; else if (g_force == SC_DEEP2) dclass = 2;
  c.codec = CODEC_LDPC; c.N1 = ch.range(3, 5); c.seed = 1 + ch.next() % 0x7FFFFFFEu;
  if (dclass == 0) { c.k = ch.range(5500, 7000); c.r = ch.range(5500, 7000); }
  else if (dclass == 1) { c.k = ch.range(9000, 12000); c.r = ch.range(10500, 12500); }
  else { c.k = ch.range(18000, 22000); c.r = ch.range(19000, 24000); }
  c.L = 1; c.payload = PAY_RANDOM; c.pseed = ch.next();
  s.role = ROLE_DEC; s.align = ch.next();
  bool cb_after;
  add_callbacks(ch, o, s, cb_after);
  ref::LdpcCode code = ref::ldpc_build(c.k, c.r, c.N1, c.seed);
  std::vector<uint32_t> first_eq(c.k, 0xFFFFFFFFu);
  for (uint32_t i = 0; i < c.r; i++) for (uint32_t x : code.row_src[i]) if (first_eq[x] == 0xFFFFFFFFu) first_eq[x] = i;
  std::vector<int> src_with_first(c.r, -1);
  for (uint32_t x = 0; x < c.k; x++) if (first_eq[x] != 0xFFFFFFFFu && src_with_first[first_eq[x]] < 0) src_with_first[first_eq[x]] = (int)x;
  // the unroll starts at first_eq[a] and reaches s after D = first_eq[s] - first_eq[a] + 1 nested rebuilds;
  // D is drawn around 4096 (a recursion bound someone might pick) half of the time, else anywhere above 3000
  uint32_t D = ch.coin(1, 2) ? 4090 + ch.next() % 12 : ch.range(3000, 5400);
  if (dclass == 1) D = ch.coin(1, 2) ? 8186 + ch.next() % 12 : ch.range(7000, 10000);
  if (dclass == 2) D = ch.coin(1, 2) ? 16378 + ch.next() % 12 : ch.range(14000, 18500);
  int a = -1, sidx = -1;
  for (uint32_t x = 0; x < c.k && a < 0; x++) {
    if (first_eq[x] == 0xFFFFFFFFu || first_eq[x] + 1 < D) continue;
    uint32_t t = first_eq[x] + 1 - D;
    if (src_with_first[t] >= 0 && (uint32_t)src_with_first[t] != x) { a = src_with_first[t]; sidx = (int)x; }
  }
  if (a < 0) { a = code.row_src[0].empty() ? 0 : (int)code.row_src[0][0]; }
  for (uint32_t x = 0; x < c.k; x++) { if ((int)x == a || (int)x == sidx) continue; Step st; st.op = OP_NEW; st.esi = x; s.steps.push_back(st); }
  if (sidx >= 0) { Step st; st.op = OP_NEW; st.esi = c.k + first_eq[(uint32_t)sidx]; s.steps.push_back(st); s.steps.push_back(st); }
  push_query(s);
  { Step st; st.op = OP_NEW; st.esi = (uint32_t)a; s.steps.push_back(st); }
  push_query(s);
  if (with_finish) { Step f; f.op = OP_FINISH; s.steps.push_back(f); push_query(s); }
  h.scripts.push_back(s);
  return h;
}

static const bool g_hook_set = (g_inject_hook.fn = &inject_2d, true);

// two encoder sessions of one process with related parameters, the first finished (released or left alive)
// before the second starts: whatever a session computes must not depend on what an earlier one left behind
inline History gen_encoder_pair(Chooser& ch, const GenOpts& o) {
  History h; GenOpts oo = o; oo.big_L = false;
  Script a = gen_encoder_script(ch, oo);
  Config c2 = a.cfg;
  uint32_t what = ch.next() % 8;
  switch (what) {
    case 0: if (c2.codec == CODEC_LDPC) c2.seed = c2.seed % 0x7FFFFFFEu + 1; else c2.k += 1; break;
    case 1: c2.pseed ^= 0x5555; break;
    case 2:
      if (c2.codec == CODEC_RSM) c2.m = (c2.m == 8) ? 4 : 8;        // same (k, r), the other field
      else if (c2.codec == CODEC_RS8) { c2.codec = CODEC_RSM; c2.m = 8; }
      else c2.N1 += 1;
      break;
    case 3: c2.r += 1 + ch.next() % 4; break;
    case 4: if (c2.r > 1) c2.r -= 1; break;
    case 5: if (c2.payload != PAY_IDENTITY) c2.L += 1; break;
    case 6: break;                                                   // identical parameters
    default: if (c2.k > 1) c2.k -= 1; break;
  }
  if (c2.codec == CODEC_RSM && c2.m == 4 && c2.k + c2.r > 15) {      // make the pair fit the small field instead of giving up the relation
    Config c1 = a.cfg; c1.k = 1 + c1.k % 8; c1.r = 1 + c1.r % 7; c2.k = c1.k; c2.r = c1.r; a = gen_encoder_script_cfg(ch, oo, c1);
  }
  if (cfg_valid(c2) != 1) c2 = a.cfg;
  Script b = gen_encoder_script_cfg(ch, oo, c2);
  bool swap = ch.coin(1, 2), alive = ch.coin(1, 3);
  h.scripts.push_back(swap ? b : a); h.scripts.push_back(swap ? a : b);
  size_t cnt = h.scripts[0].steps.size() + (alive ? 1 : 2);
  for (size_t j = 0; j < cnt; j++) h.inter.push_back(0);
  return h;
}

// Retry after a failure: sessions of one code, one after the other (each released before the next is created). The first
// is given a received set that cannot be decoded (finish fails); the next ones get a decodable set with the SAME numbers of
// source and repair symbols, received and after peeling (found on the reference code for LDPC: ML pass needed and
// sufficient). What a failed block leaves behind must not reach the next block.
inline History gen_retry(Chooser& ch, const GenOpts& o) {
  History h; GenOpts oo = o; oo.big_L = false; oo.heavy = false;
  oo.max_k_ldpc = std::min<uint32_t>(oo.max_k_ldpc, 14); oo.max_n_ldpc = std::min<uint32_t>(oo.max_n_ldpc, 26); oo.max_n_rs = std::min<uint32_t>(oo.max_n_rs, 20);
  Config c = gen_config(ch, oo);
  c.L = 1 + c.L % 24; if (c.payload == PAY_IDENTITY) c.payload = PAY_RANDOM;
  uint32_t n = c.k + c.r;
  std::vector<uint32_t> bad, good;
  if (c.codec == CODEC_LDPC) {
    if (c.N1 % 2 == 0 || c.N1 > 5) c.N1 = 3; if (c.r < c.N1) c.r = c.N1; if (c.k < 3) c.k = 3 + c.k; if (c.k + c.r > 26) { c.k = 12; c.r = 10; }
    n = c.k + c.r;
    Config c1 = c; c1.L = 1; CodeRef cr; cr.build(c1);
    uint64_t x = ch.seed64();
    struct Cand { std::vector<uint32_t> set; };
    std::map<uint64_t, std::pair<std::vector<uint32_t>, std::vector<uint32_t>>> buckets;   // key -> (undecodable set, ML-decodable set)
    for (int t = 0; t < 400 && (bad.empty() || good.empty()); t++) {
      uint32_t nrecv = c.k + (uint32_t)(splitmix(x) % 3);
      if (nrecv > n) nrecv = n;
      std::vector<uint32_t> all(n); std::iota(all.begin(), all.end(), 0); seeded_shuffle(all, splitmix(x));
      std::vector<uint32_t> set(all.begin(), all.begin() + nrecv); std::sort(set.begin(), set.end());
      std::vector<char> known(n, 0); uint32_t ns = 0; for (uint32_t e : set) { known[e] = 1; if (e < c.k) ns++; }
      ref::Determined d = ref::determinability(cr.eqs, known);
      bool all_det = true; for (uint32_t e = 0; e < c.k; e++) if (!d.det[e]) all_det = false;
      std::vector<char> cl = known; ref::peel_closure(cr.eqs, cl);
      uint32_t cs = 0, cp = 0; for (uint32_t e = 0; e < n; e++) if (cl[e]) { if (e < c.k) cs++; else cp++; }
      if (cs == c.k) continue;                    // peeling alone finishes: finish has nothing to do
      uint64_t key = ((uint64_t)ns << 48) | ((uint64_t)(nrecv - ns) << 32) | ((uint64_t)cs << 16) | cp;
      auto& b = buckets[key];
      if (!all_det && b.first.empty()) b.first = set;
      if (all_det && b.second.empty()) b.second = set;
      if (!b.first.empty() && !b.second.empty()) { bad = b.first; good = b.second; }
    }
    if (bad.empty()) return gen_multi(ch, o);
  } else {
    // Reed-Solomon: k-1 symbols cannot be decoded, k can
    std::vector<uint32_t> all(n); std::iota(all.begin(), all.end(), 0); seeded_shuffle(all, ch.seed64());
    good.assign(all.begin(), all.begin() + c.k); bad.assign(all.begin() + 1, all.begin() + c.k);
    bool has_rep = false; for (uint32_t e : good) if (e >= c.k) has_rep = true;
    if (!has_rep) good[0] = c.k + good[0] % c.r;
    std::sort(good.begin(), good.end()); std::sort(bad.begin(), bad.end());
  }
  auto mk = [&](const std::vector<uint32_t>& set, uint64_t ps) {
    Script s; s.cfg = c; s.cfg.pseed = ps; s.role = ROLE_DEC; s.cbmode = 1; s.align = ps;
    if (ps % 3 == 0) { Step st; st.op = OP_SETCB; st.flag = 1; s.steps.push_back(st); }
    Step sp; sp.op = OP_SETPARAMS; s.steps.push_back(sp);
    if (ps % 2) { Step a; a.op = OP_AVAIL; a.set = set; s.steps.push_back(a); }
    else { std::vector<uint32_t> ord = set; seeded_shuffle(ord, ps); for (uint32_t e : ord) { Step st; st.op = OP_NEW; st.esi = e; s.steps.push_back(st); } }
    Step f; f.op = OP_FINISH; s.steps.push_back(f);
    push_query(s);
    return s;
  };
  uint32_t shape = ch.next() % 3;   // bad good | bad good good | good bad good
  uint64_t p0 = ch.next();
  if (shape == 2) h.scripts.push_back(mk(good, p0 + 7));
  h.scripts.push_back(mk(bad, p0));
  h.scripts.push_back(mk(good, p0 + 1));
  if (shape == 1) h.scripts.push_back(mk(good, p0 + 2));
  for (size_t j = 0; j + 1 < h.scripts.size(); j++) for (size_t i = 0; i < h.scripts[j].steps.size() + 2; i++) h.inter.push_back((uint32_t)j);
  return h;
}
// a decoder (half of the time created with the combined role) that has made progress stays open while a twin (same
// parameters, encoder or decoder) lives its whole life; then the first one goes on
inline History gen_twin(Chooser& ch, const GenOpts& o) {
  GenOpts oo = o; oo.big_L = false;
  History h; Script a = gen_decoder_script(ch, oo);
  if (ch.coin(1, 2)) a.role = ROLE_BOTH;
  Script b = ch.coin(1, 2) ? gen_encoder_script_cfg(ch, oo, a.cfg) : gen_decoder_script_cfg(ch, oo, a.cfg);
  if (ch.coin(1, 2)) b.role = (b.role == ROLE_BOTH) ? ROLE_BOTH : (ch.coin(1, 2) ? b.role : ROLE_BOTH);
  h.scripts.push_back(a); h.scripts.push_back(b);
  size_t sa = a.steps.size(); size_t part = sa > 2 ? sa / 2 + ch.next() % (sa - sa / 2) : sa;
  for (size_t j = 0; j < 1 + part; j++) h.inter.push_back(0);
  for (size_t j = 0; j < b.steps.size() + 2; j++) h.inter.push_back(1);
  return h;
}
inline History gen_multi_x(Chooser& ch, const GenOpts& o) {
  uint32_t r = ch.next() % 16;
  if (g_force == SC_RETRY || (r == 15 && g_force == SC_NONE)) return gen_retry(ch, o);
  if (g_force == SC_TWIN || (r >= 13 && g_force == SC_NONE)) return gen_twin(ch, o);
  return gen_multi(ch, o);
}
inline bool force_is_multi() { return g_force == SC_TWIN || g_force == SC_NOISY || g_force == SC_CROWD || g_force == SC_NESTED || g_force == SC_RETRY || g_force == SC_MULTI || g_force == SC_SIBLING; }
inline bool force_is_deep() { return g_force == SC_DEEP0 || g_force == SC_DEEP1 || g_force == SC_DEEP2; }

// ---------------------------------------------------------------------------------------------
inline History generate(const PropSpec& ps, Chooser& ch) {
  switch (ps.kind) {
    case 1: { uint32_t w = ch.next() % 48; if (g_force == SC_ENCPAIR) w = 5; else if (g_force == SC_ENCCROWD) w = 47; else if (g_force != SC_NONE) w = 0; if (w == 47 && ps.go.heavy) { GenOpts g = ps.go; g.cb_mode = 2; History h = gen_crowd(ch, g, 1); return h; } return (w % 6 == 5) ? gen_encoder_pair(ch, ps.go) : gen_single_encoder(ch, ps.go); }
    case 2: {
      // memory properties: mostly single sessions, one case in four several interleaved sessions (shared
      // or cached state between sessions is where use-after-free and double free hide)
      uint32_t w = ch.next() % 12;
      if (force_is_multi()) w = 9; else if (g_force != SC_NONE && w >= 9) w = 0;
      if (force_is_deep() && (ps.go.codecs & GC_LDPC)) return gen_deep_chain(ch, ps.go, false);
      if (w >= 9) { GenOpts g = ps.go; g.max_k_ldpc = std::min<uint32_t>(g.max_k_ldpc, 40); g.max_n_ldpc = std::min<uint32_t>(g.max_n_ldpc, 80); g.max_n_rs = 40; return gen_multi_x(ch, g); }
      if (ps.go.heavy && (ps.go.codecs & GC_LDPC) && ch.next() % 160 == 159 && g_force == SC_NONE) return gen_deep_chain(ch, ps.go, false);
      return w >= 6 ? gen_single_encoder(ch, ps.go) : gen_single_decoder(ch, ps.go);
    }
    case 3: {
      History h = gen_multi_x(ch, ps.go);
      if (ch.next() % 6 == 5) {   // a 2D-parity neighbour (another codec sharing the IT/ML decoder code)
        static const uint32_t shapes[][2] = {{4, 4}, {6, 5}, {9, 6}, {8, 6}, {12, 7}, {16, 8}, {3, 4}, {2, 3}, {10, 7}};
        uint32_t w = ch.next() % 9; uint32_t k = shapes[w][0], r = shapes[w][1];
        uint64_t m = ch.seed64() & ((1ull << (k + r)) - 1);
        History p = p2d_history(k, r, m, ch.next() % 2, ch.next() % 4, ch.seed64(), ch.coin(2, 3), PAY_RANDOM, ch.next(), ch.range(1, 20), -1);
        h.scripts.push_back(p.scripts[0]);
        uint64_t x = ch.seed64(); std::vector<uint32_t> in2;
        for (uint32_t v : h.inter) { in2.push_back(v); if (splitmix(x) % 3 == 0) in2.push_back((uint32_t)h.scripts.size() - 1); }
        h.inter = in2;
      }
      return h;
    }
    case 4: return gen_code_case(ps, ch);
    case 5: return gen_lastnull_case(ps, ch);
    case 6: return gen_param_case(ps, ch);
    case 7: { uint32_t k = ch.range(1, 16), r = ch.range(2, 10); uint64_t m = ch.seed64(); return p2d_history(k, r, m & ((1ull << (k + r)) - 1), ch.next() % 2, ch.next() % 4, ch.seed64(), ch.coin(2, 3), ch.next() % 2, ch.next(), ch.range(1, 40), -1); }
    default:
      if ((ps.go.codecs & GC_LDPC) && ps.go.api_mode != 2 && ((ps.go.heavy && ch.next() % 160 == 159 && g_force == SC_NONE) || force_is_deep())) return gen_deep_chain(ch, ps.go, ps.go.finish_mode == 1);
      // one case in eight: the session under test has neighbours (caches and shared contexts keyed on part of
      // the parameters make a session's statuses and data depend on who else is alive)
      if ((ch.next() % 8 == 7 && g_force == SC_NONE) || force_is_multi()) { GenOpts g = ps.go; g.max_k_ldpc = std::min<uint32_t>(g.max_k_ldpc, 40); g.max_n_ldpc = std::min<uint32_t>(g.max_n_ldpc, 80); g.max_n_rs = std::min<uint32_t>(g.max_n_rs, 60); return gen_multi_x(ch, g); }
      return gen_single_decoder(ch, ps.go);
  }
}

inline CaseResult run_core(const History& h, const PropSpec& ps, Stats* st, bool want_trace) {
  Ctx cx; cx.enabled = ps.enabled; cx.want_trace = want_trace; apply_extra(cx);
  CaseResult cr;
  if (ps.kind == 6) for (auto& s : h.scripts) if (is_boundary(s.cfg)) cx.features |= F_BOUNDARY;
  std::map<int, std::shared_ptr<CodeRef>> inj;
  inject_2d(h, cx, inj);
  if (ps.kind == 3) {
    // C12: the interleaved run AND every solo run happen in pristine forked processes, so a case is a pure
    // function of its history (static library state left by earlier cases cannot leak into it)
    cr.rr.traces.resize(h.scripts.size()); cr.rr.last_null.assign(h.scripts.size(), -1); cr.rr.cfg_ok.assign(h.scripts.size(), 0);
    std::vector<std::vector<uint64_t>> multi; uint64_t feat = 0; uint32_t status = 0;
    bool ok = pristine_run(h, multi, &feat, &status);
    cx.features |= feat;
    std::vector<std::vector<std::vector<uint64_t>>> solo(h.scripts.size());
    std::vector<char> solo_ok(h.scripts.size(), 0);
    for (size_t i = 0; i < h.scripts.size(); i++) {
      History one; one.scripts.push_back(h.scripts[i]);
      uint64_t f2; uint32_t st2;
      solo_ok[i] = pristine_run(one, solo[i], &f2, &st2) && solo[i].size() == 1;
      if (!solo_ok[i]) cx.counters["solo_run_died"]++;
    }
    if (!ok) {
      cx.counters["interleaved_run_died"]++;
      bool all_solo = true; for (char c : solo_ok) if (!c) all_solo = false;
      if (all_solo) cx.fail(O_INDEP, "interleaved_run_dies_solo_runs_do_not", "the interleaved execution dies (wait status " + std::to_string(status) + ") although every script runs to the end alone");
    } else {
      for (size_t i = 0; i < h.scripts.size() && i < multi.size(); i++) {
        if (!solo_ok[i]) continue;
        const auto& t = multi[i]; const auto& so = solo[i][0];
        size_t m = std::min(t.size(), so.size()), d = 0;
        while (d < m && t[d] == so[d]) d++;
        if (d < m || t.size() != so.size()) {
          // observation 0 is create; observation j >= 1 is step j-1; the last one is release
          std::string what = d == 0 ? "create" : (d - 1 < h.scripts[i].steps.size() ? std::string(op_names[h.scripts[i].steps[d - 1].op]) + " (step " + std::to_string(d - 1) + ")" : "release");
          cx.fail(O_INDEP, "trace_differs_from_solo_run", "session " + std::to_string(i) + ": observation #" + std::to_string(d) + " around " + what + " differs from the same script run alone in a pristine process");
          break;
        }
        cx.counters["solo_traces_compared"]++;
      }
    }
  } else if (ps.kind == 4 && !cx.stop && zy_to >= 0) {
    // C05: "in any process and after any history of other sessions" - the history is the case, so the case runs in a pristine
    // forked process (what earlier cases of this worker left in the library's static state is not part of it). If the child
    // dies, the case is repeated here so that the usual crash triage of the driver applies.
    uint64_t feat = 0; bool f = false; std::string sig, msg; uint32_t status = 0;
    if (pristine_verdict(h, cx.enabled, cx.check_code, cx.cycle_limit_n, &feat, &f, &sig, &msg, &status)) {
      cx.features |= feat; cx.counters["cases_in_pristine_process"]++;
      if (f) { Fail fl{0, sig, msg}; cx.fails.push_back(fl); }
      cr.rr.traces.resize(h.scripts.size()); cr.rr.last_null.assign(h.scripts.size(), -1); cr.rr.cfg_ok.assign(h.scripts.size(), 0);
    } else { cx.counters["pristine_child_died_case_repeated_in_process"]++; cr.rr = run_history(h, cx, inj.empty() ? nullptr : &inj); }
  } else if (!cx.stop) cr.rr = run_history(h, cx, inj.empty() ? nullptr : &inj);
  else { cr.rr.traces.resize(h.scripts.size()); cr.rr.last_null.assign(h.scripts.size(), -1); cr.rr.cfg_ok.assign(h.scripts.size(), 0); }
  // post-run cross-session checks
  if (ps.kind == 5 && h.scripts.size() == 2 && cr.rr.cfg_ok[0] && cr.rr.cfg_ok[1] && cr.rr.last_null[0] != cr.rr.last_null[1])
    cx.fail(O_LASTNULL, "encoder_decoder_disagree", "encoder and decoder sessions with equal parameters report different IS_LAST_SYMBOL_NULL");
  cr.features = cx.features; cr.notes = cx.notes;
  if (!cx.fails.empty()) { cr.failed = true; cr.first = cx.fails[0]; }
  if (st) {
    st->evaluations++; st->skipped_steps += cx.skipped_steps; st->api_calls += cx.api_calls;
    if (cx.leak_overflow) st->leak_overflow++;
    for (auto& kv : cx.counters) st->counters[kv.first] += kv.second;
    for (int b = 0; b < (int)(sizeof(feature_names) / sizeof(feature_names[0])); b++) if (cx.features & (1ull << b)) st->feature_counts[feature_names[b]]++;
    st->classes[class_label(h, cx.features)]++;
    for (auto& n : cx.notes) { st->note_sigs[n.sig]++; if (st->note_samples.size() < 4) st->note_samples.push_back(n.sig + ": " + n.msg); }
    if (ps.nontrivial && ps.nontrivial(cx.features)) {
      st->nontrivial++;
      std::string txt = to_text(h);
      if (st->distinct.insert(hash_text(txt)).second && st->samples.size() < 6 && (st->distinct.size() % 97 == 1)) st->samples.push_back(txt.size() > 3000 ? txt.substr(0, 3000) + "\n... (" + std::to_string(txt.size()) + " characters)" : txt);
    }
  }
  return cr;
}

inline CaseResult run_any(const History& h, const PropSpec& ps, Stats* st) { return run_core(h, ps, st, ps.kind == 3); }

// minimisation with the property-specific runner
inline History minimise_any(History h, const PropSpec& ps, const std::string& sig, int budget = 500) {
  auto fails = [&](const History& c) { CaseResult cr = run_core(c, ps, nullptr, ps.kind == 3); return cr.failed && cr.first.sig == sig; };
  bool progress = true;
  while (progress && budget > 0) {
    progress = false;
    for (size_t i = 0; h.scripts.size() > 1 && i < h.scripts.size() && budget > 0; i++) {
      if (ps.kind == 5) break;  // C15 cases are pairs
      History c = h; c.scripts.erase(c.scripts.begin() + i);
      // re-index the interleaving
      std::vector<uint32_t> in2; for (uint32_t x : h.inter) { if (x % h.scripts.size() == i) continue; uint32_t y = x % (uint32_t)h.scripts.size(); in2.push_back(y > i ? y - 1 : y); }
      c.inter = in2; budget--;
      if (fails(c)) { h = c; progress = true; i--; }
    }
    for (size_t si = 0; si < h.scripts.size(); si++) {
      for (size_t chunk = std::max<size_t>(1, h.scripts[si].steps.size() / 2); chunk >= 1 && budget > 0; chunk /= 2) {
        for (size_t i = 0; i + chunk <= h.scripts[si].steps.size() && budget > 0;) {
          History c = h; auto& v = c.scripts[si].steps;
          bool has_sp = false; for (size_t j = i; j < i + chunk; j++) if (v[j].op == OP_SETPARAMS) has_sp = true;
          if (has_sp && chunk > 1) { i++; continue; }
          v.erase(v.begin() + i, v.begin() + i + chunk); budget--;
          if (fails(c)) { h = c; progress = true; } else i++;
        }
        if (chunk == 1) break;
      }
      for (size_t j = 0; j < h.scripts[si].steps.size(); j++) {
        if (h.scripts[si].steps[j].op != OP_AVAIL) continue;
        for (size_t e = 0; e < h.scripts[si].steps[j].set.size() && budget > 0;) {
          History c = h; auto& set = c.scripts[si].steps[j].set; set.erase(set.begin() + e); budget--;
          if (fails(c)) { h = c; progress = true; } else e++;
        }
      }
      auto try_cfg = [&](std::function<void(Script&)> f) {
        if (budget <= 0) return;
        History c = h; f(c.scripts[si]); budget--;
        if (to_text(c) != to_text(h) && fails(c)) { h = c; progress = true; }
      };
      try_cfg([](Script& s) { if (s.cfg.payload != PAY_IDENTITY) s.cfg.L = 1; });
      try_cfg([](Script& s) { if (s.cfg.payload != PAY_IDENTITY) s.cfg.L = 8; });
      try_cfg([](Script& s) { s.align = 0; });
      try_cfg([](Script& s) { s.cbmask = 0; });
      try_cfg([](Script& s) { s.cfg.pseed = 0; });
      try_cfg([](Script& s) { if (s.cfg.codec == CODEC_LDPC && s.cfg.seed >= 1 && s.cfg.seed <= 0x7FFFFFFEu) s.cfg.seed = 1; });
    }
    if (!h.inter.empty() && budget > 0) { History c = h; c.inter.clear(); budget--; if (fails(c)) { h = c; progress = true; } }
  }
  return h;
}

// a decoder history for the 2D codec: received pattern `mask` in a given order through one API
inline History p2d_history(uint32_t k, uint32_t r, uint64_t mask, int api, int order, uint64_t oseed, bool finish, int payload, uint64_t pseed, uint32_t L, int cut) {
  History h; Script s;
  s.cfg.codec = CODEC_P2D; s.cfg.k = k; s.cfg.r = r; s.cfg.L = L; s.cfg.payload = payload; s.cfg.pseed = pseed;
  s.role = ((mask ^ pseed) % 5 == 0) ? ROLE_BOTH : ROLE_DEC; s.cbmode = 1;
  // callbacks: none (most patterns) | source | source + repair | repair only; the repair callback returns a buffer or NULL
  uint64_t cbh = mix2(mask * 31 + k, oseed ^ (uint64_t)r);
  uint32_t cbk = (uint32_t)(cbh % 8);   // 0-3 none, 4 source, 5-6 both, 7 repair only
  if (cbk >= 4) { Step st; st.op = OP_SETCB; st.flag = cbk == 4 ? 1 : cbk == 7 ? 2 : 3; s.cbmode = 1 + (int)((cbh >> 8) % 3); s.cbmask = cbh >> 16; s.repmode = (int)((cbh >> 12) & 1); if ((cbh >> 13) & 1) s.steps.push_back(st); Step sp; sp.op = OP_SETPARAMS; s.steps.push_back(sp); if (!((cbh >> 13) & 1)) s.steps.push_back(st); }
  else { Step sp; sp.op = OP_SETPARAMS; s.steps.push_back(sp); }
  std::vector<uint32_t> rec;
  for (uint32_t e = 0; e < k + r; e++) if (mask & (1ull << e)) rec.push_back(e);
  if (order == 1) std::reverse(rec.begin(), rec.end());
  if (order >= 2) seeded_shuffle(rec, oseed);
  if (api == 1) { Step a; a.op = OP_AVAIL; a.set = rec; std::sort(a.set.begin(), a.set.end()); s.steps.push_back(a); }
  else for (uint32_t e : rec) { Step st; st.op = OP_NEW; st.esi = e; s.steps.push_back(st); }
  if (finish) { Step f; f.op = OP_FINISH; s.steps.push_back(f); }
  if (cut >= 0 && (size_t)cut < s.steps.size()) s.steps.resize((size_t)cut);
  h.scripts.push_back(s);
  return h;
}

// a decoder history for a given configuration, received pattern, API, order
inline History dec_history(const Config& c, uint64_t mask, int api, int order, uint64_t oseed, bool finish, int cb, bool query_every, int cut) {
  History h; Script s; s.cfg = c; s.role = ROLE_DEC; s.align = oseed;
  s.cbmode = cb ? cb : 1; s.cbmask = oseed * 0x9E3779B97F4A7C15ULL;
  if (cb) { Step st; st.op = OP_SETCB; st.flag = 1; if ((oseed ^ mask) % 4 == 3) { st.flag = 3; s.repmode = (int)(((oseed ^ mask) >> 2) & 1); } s.steps.push_back(st); }
  Step sp; sp.op = OP_SETPARAMS; s.steps.push_back(sp);
  std::vector<uint32_t> rec;
  for (uint32_t e = 0; e < c.k + c.r; e++) if (mask & (1ull << e)) rec.push_back(e);
  if (order == 1) std::reverse(rec.begin(), rec.end());
  if (order >= 2) seeded_shuffle(rec, oseed);
  if (api == 1) { Step a; a.op = OP_AVAIL; a.set = rec; std::sort(a.set.begin(), a.set.end()); s.steps.push_back(a); if (query_every) push_query(s); }
  else for (uint32_t e : rec) { Step st; st.op = OP_NEW; st.esi = e; s.steps.push_back(st); if (query_every) push_query(s); }
  if (finish) { Step f; f.op = OP_FINISH; s.steps.push_back(f); if (query_every) push_query(s); }
  if (cut >= 0 && (size_t)cut < s.steps.size()) s.steps.resize((size_t)cut);
  h.scripts.push_back(s);
  return h;
}

// complete enumeration of small codes: every received subset x APIs x finish/no finish (+ one seeded order)
template <class F>
inline void enumerate_small(const PropSpec& ps, const Tier& t, int worker, int nworkers, uint64_t seed, F one, Stats* st_out, std::string& extra_json) {
  std::vector<Config> cfgs;
  uint32_t nmax_rs = t.thorough ? 10 : 7, nmax_ldpc = t.thorough ? 14 : 11;
  auto add_rs = [&](int codec, uint32_t m, uint32_t lim) {
    for (uint32_t n = 2; n <= std::min(nmax_rs, lim); n++) for (uint32_t k = 1; k < n; k++) { Config c; c.codec = codec; c.m = m; c.k = k; c.r = n - k; c.L = 1 + (k * 7 + n) % 9; c.payload = (k + n) % 3 == 0 ? PAY_IDENTITY : PAY_RANDOM; c.pseed = k * 131 + n; cfgs.push_back(c); }
  };
  if (ps.go.codecs & GC_RS8) add_rs(CODEC_RS8, 8, 255);
  if (ps.go.codecs & GC_RSM4) add_rs(CODEC_RSM, 4, 15);
  if (ps.go.codecs & GC_RSM8) add_rs(CODEC_RSM, 8, 255);
  if (ps.go.codecs & GC_LDPC)
    for (uint32_t k : {1u, 2u, 3u, 4u, 5u, 6u, 8u}) for (uint32_t r : {3u, 4u, 5u, 6u}) for (uint32_t N1 : {3u, 4u}) for (uint32_t sd : {1u, 7u}) {
      if (N1 > r || k + r > nmax_ldpc) continue;
      if (!t.thorough && sd == 7 && (k + r) % 2) continue;
      Config c; c.codec = CODEC_LDPC; c.k = k; c.r = r; c.N1 = N1; c.seed = sd; c.L = 1 + (k * 5 + r) % 11; c.payload = (k + r) % 3 == 0 ? PAY_IDENTITY : PAY_RANDOM; c.pseed = k * 17 + r; cfgs.push_back(c);
    }
  uint64_t idx = 0, patterns = 0;
  for (const Config& c : cfgs) {
    uint32_t n = c.k + c.r;
    for (uint64_t mask = 0; mask < (1ull << n); mask++) {
      if ((idx++ % (uint64_t)nworkers) != (uint64_t)worker) continue;
      patterns++;
      uint64_t os = mix2(seed, mask * 64 + n);
      int cb = ps.go.cb_mode == 1 ? 1 + (int)(mask % 3) : (ps.go.cb_mode == 2 ? 0 : (int)((mask >> 1) % 4));
      bool qe = ps.go.query_mode == 1;
      for (int api = 0; api < 2; api++) {
        if ((ps.go.api_mode == 1 && api == 1) || (ps.go.api_mode == 2 && api == 0)) continue;
        for (int fin = 0; fin < 2; fin++) {
          if ((ps.go.finish_mode == 1 && !fin) || (ps.go.finish_mode == 2 && fin)) continue;
          if (!one(dec_history(c, mask, api, 0, os, fin, cb, qe, -1))) return;
        }
      }
      if (ps.go.api_mode != 2) {
        bool fin = ps.go.finish_mode == 1 || (ps.go.finish_mode == 0 && (mask & 1));
        if (!one(dec_history(c, mask, 0, 2, os, fin, cb, qe, -1))) return;
        if (ps.go.early_release && mask % 5 == 0) { int steps = 2 + __builtin_popcountll(mask); if (!one(dec_history(c, mask, 0, 2, os, true, cb, qe, (int)(os % (uint64_t)(steps + 1))))) return; }
      }
    }
  }
  // ---- sweeps along one axis with cheap cases: arithmetic coincidences on a size (tile widths, strides,
  // counter widths, magic lengths) only show at particular values, so the axis is walked completely
  {
    // symbol length: every L in 1..65536 (thorough) or a ladder of multiples of 512 +-1 plus protocol sizes (quick)
    std::vector<uint32_t> Ls;
    if (t.thorough) { for (uint32_t L = 1; L <= 8192; L++) Ls.push_back(L); for (uint32_t L = 8192 + 512; L <= 65536; L += 512) { Ls.push_back(L - 1); Ls.push_back(L); Ls.push_back(L + 1); } for (uint32_t L : {8972u, 9000u, 12288u, 65507u, 65535u}) Ls.push_back(L); }
    else { for (uint32_t L = 512; L <= 65536; L += 512) { Ls.push_back(L - 1); Ls.push_back(L); Ls.push_back(L + 1); } for (uint32_t L : {1472u, 8972u, 9000u, 12288u, 65507u, 65535u}) Ls.push_back(L); }
    std::vector<Config> lc;
    auto mk = [&](int codec, uint32_t m, uint32_t k, uint32_t r, uint32_t N1, uint32_t sd) { Config c; c.codec = codec; c.m = m; c.k = k; c.r = r; c.N1 = N1; c.seed = sd; c.payload = PAY_RANDOM; return c; };
    if (ps.go.codecs & GC_RS8) lc.push_back(mk(CODEC_RS8, 8, 3, 2, 3, 1));
    if (ps.go.codecs & GC_RSM8) lc.push_back(mk(CODEC_RSM, 8, 3, 2, 3, 1));
    if (ps.go.codecs & GC_RSM4) lc.push_back(mk(CODEC_RSM, 4, 3, 2, 3, 1));
    if (ps.go.codecs & GC_LDPC) { lc.push_back(mk(CODEC_LDPC, 8, 4, 4, 3, 1)); lc.push_back(mk(CODEC_LDPC, 8, 8, 4, 4, 1)); }   // odd and even N1 (the latter injects a zero symbol)
    // a third LDPC entry walks the lengths through the ML pass: its received set is the first (by popcount, then value) that
    // leaves iterative decoding stuck although the sources are determined, found on the reference code
    uint64_t ml_mask = 0; size_t ml_entry = (size_t)-1;
    if ((ps.go.codecs & GC_LDPC) && ps.go.finish_mode != 2) {
      Config c = mk(CODEC_LDPC, 8, 5, 6, 3, 7); c.L = 1;
      CodeRef cr; cr.build(c);
      uint32_t n = c.k + c.r;
      for (uint64_t m = (1ull << n) - 1; m > 0 && !ml_mask; m--) {
        if ((uint32_t)__builtin_popcountll(m) < c.k) continue;
        std::vector<char> known(n, 0); for (uint32_t e = 0; e < n; e++) if (m & (1ull << e)) known[e] = 1;
        ref::Determined d = ref::determinability(cr.eqs, known);
        bool all = true; for (uint32_t e = 0; e < c.k; e++) if (!d.det[e]) all = false;
        if (!all) continue;
        ref::peel_closure(cr.eqs, known);
        bool peeled = true; for (uint32_t e = 0; e < c.k; e++) if (!known[e]) peeled = false;
        if (!peeled) ml_mask = m;
      }
      if (ml_mask) { ml_entry = lc.size(); lc.push_back(c); }
    }
    uint64_t swept = 0, swept_ml = 0;
    for (size_t ci = 0; ci < lc.size(); ci++)
      for (uint32_t L : Ls) {
        const Config& c0 = lc[ci];
        if ((idx++ % (uint64_t)nworkers) != (uint64_t)worker) continue;
        Config c = c0; c.L = L; c.pseed = L;
        uint32_t n = c.k + c.r;
        // lose source 1 and the last repair; everything else arrives; finish
        uint64_t mask = ((1ull << n) - 1) & ~(1ull << 1) & ~(1ull << (n - 1));
        if (ci == ml_entry) { mask = ml_mask; swept_ml++; }
        int api = (ps.go.api_mode == 2) ? 1 : (ps.go.api_mode == 1 ? 0 : (int)(L & 1));
        bool fin = ps.go.finish_mode != 2;
        int cb = ps.go.cb_mode == 1 ? 1 + (int)(L % 3) : (ps.go.cb_mode == 2 ? 0 : (int)(L % 4));
        if (!one(dec_history(c, mask, api, (int)(L % 3), mix2(seed, L), fin, cb, false, -1))) return;
        swept++;
      }
    if (st_out) st_out->subspaces.push_back(std::string("symbol length sweep: ") + (t.thorough ? "every L in 1..8192, then multiples of 512 +-1 up to 65536 and protocol sizes" : "multiples of 512 +-1 up to 65536 and protocol sizes (1472, 8972, 9000, 12288, 65507, 65535)") + " on " + std::to_string(lc.size()) + " tiny codes with one source and one repair lost" + (ml_entry != (size_t)-1 ? " (one LDPC code with a received set that needs the ML pass)" : "") + ": complete");
    if (st_out) st_out->counters["L_sweep_cases_through_ML"] += swept_ml;
    // number of repair symbols (LDPC): every r = n-k in 3..8192 (quick) / 3..16384 (thorough) at rate 1/2 (k = r, N1 = 3: no extra
    // entries, every source in three equations). The lost set is a stopping set read off the reference code: the source s whose
    // equations x < y < z lie closest together, and the repairs p_x .. p_(z-1). Every equation x..z then keeps two unknowns, so
    // iterative decoding is stuck, and the sum of equations x..z yields s: of_finish_decoding has to run its ML pass.
    if ((ps.go.codecs & GC_LDPC) && ps.go.finish_mode != 2) {
      const uint32_t rmax = t.thorough ? 16384 : 8192;
      uint64_t unknowns_sum = 0, cases = 0;
      for (uint32_t r = 3; r <= rmax; r++) {
        if ((idx++ % (uint64_t)nworkers) != (uint64_t)worker) continue;
        Config c; c.codec = CODEC_LDPC; c.k = r; c.r = r; c.N1 = 3; c.seed = 1 + r % 5; c.L = 1; c.payload = PAY_RANDOM; c.pseed = r;
        ref::LdpcCode code = ref::ldpc_build(c.k, c.r, c.N1, c.seed);
        std::vector<uint32_t> lo(c.k, 0xFFFFFFFFu), hi(c.k, 0);
        for (uint32_t i = 0; i < c.r; i++) for (uint32_t x : code.row_src[i]) { if (lo[x] == 0xFFFFFFFFu) lo[x] = i; hi[x] = i; }
        uint32_t best = 0, span = 0xFFFFFFFFu;
        for (uint32_t x = 0; x < c.k; x++) if (lo[x] != 0xFFFFFFFFu && hi[x] > lo[x] && hi[x] - lo[x] < span) { span = hi[x] - lo[x]; best = x; }
        if (span == 0xFFFFFFFFu) continue;
        std::vector<char> lost(c.k + c.r, 0);
        lost[best] = 1;
        for (uint32_t j = lo[best]; j < hi[best]; j++) lost[c.k + j] = 1;
        History h; Script sc; sc.cfg = c; sc.role = ROLE_DEC; sc.cbmode = 1;
        Step sp; sp.op = OP_SETPARAMS; sc.steps.push_back(sp);
        Step a; a.op = OP_AVAIL; for (uint32_t e = 0; e < c.k + c.r; e++) if (!lost[e]) a.set.push_back(e); sc.steps.push_back(a);
        Step f; f.op = OP_FINISH; sc.steps.push_back(f);
        h.scripts.push_back(sc);
        if (!one(h)) return;
        swept++; cases++; unknowns_sum += span + 1;
      }
      if (st_out) { st_out->counters["r_sweep_cases"] += cases; st_out->counters["r_sweep_unknowns_total"] += unknowns_sum; }
      if (st_out) st_out->subspaces.push_back("repair count sweep (LDPC): every n-k in 3.." + std::to_string(rmax) + " with k = n-k, N1=3, and a stopping set built from the reference code lost (a source and the repairs between its first and last equation: iterative decoding stuck, ML needed and sufficient): complete; n-k above " + std::to_string(rmax) + " not swept");
    }
    extra_json = "\"x_axis_sweep_cases_this_worker\":" + std::to_string(swept);
  }
  if (st_out) { st_out->exhaustive = true; st_out->subspaces.push_back("every received subset (2^n) of " + std::to_string(cfgs.size()) + " small codes (RS n <= " + std::to_string(nmax_rs) + ", LDPC n <= " + std::to_string(nmax_ldpc) + ") x submission API x finish/no finish, canonical + one seeded order: complete"); }
  extra_json += std::string(extra_json.empty() ? "" : ",") + "\"x_small_codes\":" + std::to_string(cfgs.size()) + ",\"x_patterns_this_worker\":" + std::to_string(patterns);
}

// Scenario phase: a fixed number of cases of every rare scenario class that applies to the property, forced rather than
// drawn (the random phase draws them with small probabilities, so whether a given run contains one would depend on the seed).
template <class F>
inline bool scenario_cases(const PropSpec& ps, const Tier& t, int worker, int nworkers, uint64_t seed, F one, Stats* st_out) {
  std::vector<std::pair<int, uint32_t>> plan;   // scenario, cases over all workers (quick); thorough runs four times as many
  bool ldpc = (ps.go.codecs & GC_LDPC) != 0;
  switch (ps.kind) {
    case 0: case 2:
      if (ldpc && ps.go.api_mode != 2) { plan.push_back({SC_DEEP0, 16}); plan.push_back({SC_DEEP1, 16}); plan.push_back({SC_DEEP2, 8}); }
      if (ldpc) { plan.push_back({SC_WIDEROW, 64}); plan.push_back({SC_WIDEROW_BIG, 48}); plan.push_back({SC_NOISY, 16}); }
      plan.push_back({SC_CROWD, 32}); plan.push_back({SC_NESTED, 96}); plan.push_back({SC_RETRY, 96}); plan.push_back({SC_TWIN, 128}); plan.push_back({SC_SIBLING, 96}); plan.push_back({SC_MULTI, 64});
      break;
    case 1: plan.push_back({SC_ENCPAIR, 192}); plan.push_back({SC_ENCCROWD, 48}); if (ldpc) { plan.push_back({SC_WIDEROW, 48}); plan.push_back({SC_WIDEROW_BIG, 32}); } break;
    case 3: plan.push_back({SC_TWIN, 192}); plan.push_back({SC_RETRY, 128}); plan.push_back({SC_NESTED, 96}); plan.push_back({SC_CROWD, 32}); plan.push_back({SC_NOISY, 32}); plan.push_back({SC_SIBLING, 128}); break;
    case 4: plan.push_back({SC_MARATHON, 48}); plan.push_back({SC_C05BIG, 16}); plan.push_back({SC_C05VERB, 256}); plan.push_back({SC_WIDEROW, 32}); plan.push_back({SC_WIDEROW_BIG, 16}); break;
    case 5: plan.push_back({SC_LN256, 128}); plan.push_back({SC_LN65536, 16}); break;
    default: break;
  }
  uint64_t idx = 0;
  for (auto& pl : plan) {
    uint32_t cnt = pl.second * (t.thorough ? 4 : 1);
    for (uint32_t i = 0; i < cnt; i++) {
      if ((idx++ % (uint64_t)nworkers) != (uint64_t)worker) continue;
      uint64_t x = mix2(mix2(seed, (uint64_t)pl.first), i);
      std::vector<uint32_t> choices(400); for (auto& c : choices) c = (uint32_t)splitmix(x);
      Chooser ch(choices.data(), choices.size());
      g_force = pl.first;
      History h = generate(ps, ch);
      g_force = SC_NONE;
      if (st_out) st_out->counters[std::string("scenario_cases:") + scenario_names[pl.first]]++;
      if (!one(h)) return false;
    }
  }
  if (st_out && !plan.empty()) { std::string l; for (auto& pl : plan) l += std::string(l.empty() ? "" : ", ") + scenario_names[pl.first] + " x" + std::to_string(pl.second * (t.thorough ? 4 : 1)); st_out->subspaces.push_back("scenario phase (every rare scenario class forced a fixed number of times, parameters generated): " + l); }
  return true;
}

template <class F>
inline void enumerate(const std::string& prop, const Tier& t, int worker, int nworkers, uint64_t seed, F one, std::string& extra_json, const PropSpec* psp = nullptr, Stats* st_out = nullptr) {
  if (psp && !scenario_cases(*psp, t, worker, nworkers, seed, one, st_out)) return;
  if (prop == "C06") {
    // generator identity, complete: the generator row of ESI j does not depend on n, so n = maximum covers
    // every accepted (k, n); identity payload exposes every coefficient
    uint64_t idx = 0, blocks = 0;
    auto enc = [&](int codec, uint32_t m, uint32_t k, uint32_t n) {
      History h; Script e; e.cfg.codec = codec; e.cfg.m = m; e.cfg.k = k; e.cfg.r = n - k; e.cfg.payload = PAY_IDENTITY; e.role = ROLE_ENC; e.align = k;
      Step sp; sp.op = OP_SETPARAMS; e.steps.push_back(sp);
      for (uint32_t j = k; j < n; j++) { Step b; b.op = OP_BUILD; b.esi = j; b.flag = (j + k) % 5 == 0; e.steps.push_back(b); }
      h.scripts.push_back(e); return h;
    };
    for (uint32_t k = 1; k <= 254; k++) {
      if (!t.thorough && !(k <= 4 || k == 8 || k == 16 || k == 32 || k == 64 || k == 128 || k == 200 || k >= 253)) continue;
      if ((idx++ % (uint64_t)nworkers) != (uint64_t)worker) continue;
      if (!one(enc(CODEC_RS8, 8, k, 255))) return;
      if (!one(enc(CODEC_RSM, 8, k, 255))) return;
      blocks += 2;
      if (k <= 14) { if (!one(enc(CODEC_RSM, 4, k, 15))) return; blocks++; }
    }
    // LDPC: identity payload over a grid of (k, r, N1, seed)
    for (uint32_t k : {1u, 2u, 3u, 5u, 10u, 31u, 32u, 33u, 100u, 400u}) for (uint32_t N1 : {3u, 4u, 7u, 10u}) for (uint32_t rr : {0u, 1u, 2u}) for (uint32_t sd : {1u, 0x7FFFFFFEu, 12345u}) {
      if ((idx++ % (uint64_t)nworkers) != (uint64_t)worker) continue;
      uint32_t r = std::max<uint32_t>(N1, rr == 0 ? k / 2 : rr == 1 ? k : 3 * k);
      if (!t.thorough && k > 100) continue;
      History h; Script e; e.cfg.codec = CODEC_LDPC; e.cfg.k = k; e.cfg.r = r; e.cfg.N1 = N1; e.cfg.seed = sd; e.cfg.payload = PAY_IDENTITY; e.role = ROLE_ENC;
      Step sp; sp.op = OP_SETPARAMS; e.steps.push_back(sp);
      for (uint32_t j = k; j < k + r; j++) { Step b; b.op = OP_BUILD; b.esi = j; b.flag = j % 7 == 0; e.steps.push_back(b); }
      h.scripts.push_back(e);
      if (!one(h)) return;
      blocks++;
    }
    if (st_out) { st_out->exhaustive = true; st_out->subspaces.push_back(std::string("identity-payload generator rows for RS-2^8 / RS-2^m(m=8) k in ") + (t.thorough ? "1..254 (all)" : "{1..4, 8, 16, 32, 64, 128, 200, 253, 254}") + " with n=255 and RS-2^m(m=4) k in 1..14 with n=15; LDPC identity payload over a (k, r, N1, seed) grid: complete for the listed grid"); }
    extra_json = "\"x_identity_blocks_this_worker\":" + std::to_string(blocks);
    return;
  }
  if (prop != "C16") { if (psp && psp->kind <= 2) enumerate_small(*psp, t, worker, nworkers, seed, one, st_out, extra_json); return; }
  // (1) which (k, r) does the codec accept?
  std::vector<std::pair<uint32_t, uint32_t>> accepted;
  uint64_t offered = 0;
  std::string acc_txt;
  for (uint32_t k = 0; k <= 17; k++)
    for (uint32_t r = 0; r <= 12; r++) {
      offered++;
      Config c; c.codec = CODEC_P2D; c.k = k; c.r = r; c.L = 4; c.payload = PAY_RANDOM;
      // encoder on identity + generated payloads; structure is judged inside run_core (observe_2d)
      History h; Script e; e.cfg = c; e.role = ROLE_ENC;
      Step sp; sp.op = OP_SETPARAMS; e.steps.push_back(sp);
      for (uint32_t j = 0; j < r; j++) { Step b; b.op = OP_BUILD; b.esi = k + j; b.flag = j & 1; e.steps.push_back(b); }
      h.scripts.push_back(e);
      if ((k * 13 + r) % (uint32_t)nworkers == (uint32_t)worker) {
        if (!one(h)) return;
        for (uint32_t v = 0; v < 3; v++) { History h2 = h; h2.scripts[0].cfg.pseed = mix2(seed, v); h2.scripts[0].cfg.L = 1 + (uint32_t)(mix2(seed, v + 9) % 40); if (!one(h2)) return; }
      }
      Obs2D o = observe_2d(c);
      if (o.status == 0) { accepted.push_back({k, r}); acc_txt += "(" + std::to_string(k) + "," + std::to_string(r) + ":" + std::to_string(o.d) + "x" + std::to_string(o.l) + ") "; }
    }
  extra_json = "\"x_offered_kr\":" + std::to_string(offered) + ",\"x_accepted_kr\":\"" + acc_txt + "\"";
  // (2) decoder over received subsets
  uint64_t idx = 0;
  for (auto& kr : accepted) {
    uint32_t k = kr.first, r = kr.second, n = k + r;
    bool complete = t.thorough ? n <= 20 : n <= 13;
    uint64_t total = 1ull << n;
    uint64_t count = complete ? total : (t.thorough ? 400000 : 5000);
    for (uint64_t q = 0; q < count; q++) {
      if ((idx++ % (uint64_t)nworkers) != (uint64_t)worker) continue;
      uint64_t mask = complete ? q : (mix2(mix2(seed, q), n) & (total - 1));
      if (!complete && q % 3 == 0) { // around the interesting region: few losses
        uint64_t x = mix2(seed, q * 7 + 1); mask = total - 1; for (int z = 0; z < 1 + (int)(q % 5); z++) mask &= ~(1ull << (splitmix(x) % n));
      }
      int payload = (q & 1) ? PAY_IDENTITY : PAY_RANDOM;
      uint32_t L = 1 + (uint32_t)(q % 9);
      for (int api = 0; api < 2; api++) if (!one(p2d_history(k, r, mask, api, 0, 0, true, payload, q, L, -1))) return;
      if (q % 16 == 0) {
        for (int ord = 1; ord < 4; ord++) if (!one(p2d_history(k, r, mask, 0, ord, mix2(q, ord), (q & 32) == 0, payload, q, L, -1))) return;
        // release at a generated step index
        int steps = 2 + __builtin_popcountll(mask);
        if (!one(p2d_history(k, r, mask, (int)(q / 16 & 1), 2, q, true, payload, q, L, (int)(mix2(q, 5) % (uint64_t)(steps + 1))))) return;
      }
    }
  }
}

}}  // namespace
