#ifdef PROBE_STUB
#include "shim.h"
int shp_mat_available(void) { return 0; }
void *shp_sp_alloc(uint32_t rows, uint32_t cols) { return 0; }
void shp_sp_free(void *m) {  }
void shp_sp_clear(void *m) {  }
int shp_sp_insert(void *m, uint32_t r, uint32_t c) { return 0; }
int shp_sp_find(void *m, uint32_t r, uint32_t c) { return 0; }
int shp_sp_delete(void *m, uint32_t r, uint32_t c) { return 0; }
long shp_sp_delete_run(void *m, int by_col, uint32_t line, uint32_t skip, uint32_t count, int32_t *out, long cap) { return 0; }
void shp_sp_copy(void *m, void *r) {  }
void shp_sp_copyrows(void *m, void *r, uint32_t *rows) {  }
void shp_sp_copycols(void *m, void *r, uint32_t *cols) {  }
void shp_sp_copyrows_opt(void *m, void *r, uint32_t *rows) {  }
void shp_sp_copycols_opt(void *m, void *r, uint32_t *cols) {  }
void shp_sp_copy_filled(void *m, void *r, uint32_t *index_rows, uint32_t *index_cols) {  }
int shp_sp_empty_row(void *m, uint32_t r) { return 0; }
int shp_sp_empty_col(void *m, uint32_t c) { return 0; }
uint32_t shp_sp_weight_row(void *m, uint32_t r) { return 0; }
long shp_sp_dump_rows(void *m, int32_t *out_r, int32_t *out_c, long cap) { return 0; }
long shp_sp_dump_cols(void *m, int32_t *out_r, int32_t *out_c, long cap) { return 0; }
int shp_sp_links_ok(void *m, long cap) { return 0; }
void shp_sp_to_dense(void *m, void *d) {  }
void shp_dense_to_sp(void *d, void *m) {  }
void *shp_dn_alloc(uint32_t rows, uint32_t cols) { return 0; }
void shp_dn_free(void *d) {  }
void shp_dn_clear(void *d) {  }
uint32_t shp_dn_get(void *d, uint32_t r, uint32_t c) { return 0; }
int shp_dn_set(void *d, uint32_t r, uint32_t c, uint32_t v) { return 0; }
uint32_t shp_dn_flip(void *d, uint32_t r, uint32_t c) { return 0; }
void shp_dn_copy(void *m, void *r) {  }
void shp_dn_copyrows(void *m, void *r, uint32_t *rows) {  }
void shp_dn_copycols(void *m, void *r, uint32_t *cols) {  }
void shp_dn_xor_rows(void *d, uint32_t from, uint32_t to) {  }
uint32_t shp_dn_row_weight(void *d, uint32_t r) { return 0; }
uint32_t shp_dn_col_weight(void *d, uint32_t c) { return 0; }
int shp_dn_row_is_empty(void *d, uint32_t r) { return 0; }
uint32_t shp_dn_row_weight_ignore_first(void *d, uint32_t r, uint32_t nb) { return 0; }
uint32_t shp_dn_rows(void *d) { return 0; }
uint32_t shp_dn_cols(void *d) { return 0; }
int shp_popcount3(uint64_t x) { return 0; }
uint32_t shp_hweight32(uint32_t w) { return 0; }
uint32_t shp_hweight32_naive(uint32_t w) { return 0; }
uint32_t shp_hweight32_table(uint32_t w) { return 0; }
uint32_t shp_hweight8_table(uint8_t w) { return 0; }
uint32_t shp_hweight_array(uint32_t *a, int32_t size_bits) { return 0; }
int shp_solve(void *d, void **const_tab, void **var_tab, uint32_t L) { return 0; }
int shp_solve_reuse(void *d, void **const_tab, void **var_tab, uint32_t L) { return 0; }
#else
#include "lib_common/of_openfec_api.h"
#include "lib_common/linear_binary_codes_utils/of_linear_binary_code.h"
#include "shim.h"
#include <string.h>
#include <stdlib.h>

#define IN sh_in_library++
#define OUT sh_in_library--
UINT8 of_hweight8_table(UINT8 w);

int shp_mat_available(void) { return 1; }
void *shp_sp_alloc(uint32_t rows, uint32_t cols) { void *m; IN; m = of_mod2sparse_allocate(rows, cols); OUT; return m; }
void shp_sp_free(void *m) { IN; of_mod2sparse_free((of_mod2sparse *) m); of_free(m); OUT; }
void shp_sp_clear(void *m) { IN; of_mod2sparse_clear((of_mod2sparse *) m); OUT; }
int shp_sp_insert(void *m, uint32_t r, uint32_t c) { of_mod2entry *e; IN; e = of_mod2sparse_insert((of_mod2sparse *) m, r, c); OUT; return e != NULL; }
int shp_sp_find(void *m, uint32_t r, uint32_t c) { of_mod2entry *e; IN; e = of_mod2sparse_find((of_mod2sparse *) m, r, c); OUT; return e != NULL; }
int shp_sp_delete(void *m, uint32_t r, uint32_t c)
{
	of_mod2entry *e;
	IN;
	e = of_mod2sparse_find((of_mod2sparse *) m, r, c);
	if (e) of_mod2sparse_delete((of_mod2sparse *) m, e);
	OUT;
	return e != NULL;
}
/* deletes `count` consecutive entries of one row (or column) through the handles of a traversal, as the decoders do:
 * no lookup is involved. Skips `skip` entries first; writes the other coordinate of every deleted entry to out. */
long shp_sp_delete_run(void *m, int by_col, uint32_t line, uint32_t skip, uint32_t count, int32_t *out, long cap)
{
	of_mod2sparse *M = (of_mod2sparse *) m;
	of_mod2entry *e, *nx;
	long n = 0;
	IN;
	e = by_col ? of_mod2sparse_first_in_col(M, line) : of_mod2sparse_first_in_row(M, line);
	while (!of_mod2sparse_at_end(e) && skip) { e = by_col ? of_mod2sparse_next_in_col(e) : of_mod2sparse_next_in_row(e); skip--; }
	while (!of_mod2sparse_at_end(e) && count && n < cap) {
		nx = by_col ? of_mod2sparse_next_in_col(e) : of_mod2sparse_next_in_row(e);
		out[n++] = by_col ? of_mod2sparse_row(e) : of_mod2sparse_col(e);
		of_mod2sparse_delete(M, e);
		e = nx;
		count--;
	}
	OUT;
	return n;
}
void shp_sp_copy(void *m, void *r) { IN; of_mod2sparse_copy((of_mod2sparse *) m, (of_mod2sparse *) r); OUT; }
void shp_sp_copyrows(void *m, void *r, uint32_t *rows) { IN; of_mod2sparse_copyrows((of_mod2sparse *) m, (of_mod2sparse *) r, rows); OUT; }
void shp_sp_copycols(void *m, void *r, uint32_t *cols) { IN; of_mod2sparse_copycols((of_mod2sparse *) m, (of_mod2sparse *) r, cols); OUT; }
void shp_sp_copyrows_opt(void *m, void *r, uint32_t *rows) { IN; of_mod2sparse_copyrows_opt((of_mod2sparse *) m, (of_mod2sparse *) r, rows, NULL); OUT; }
void shp_sp_copycols_opt(void *m, void *r, uint32_t *cols) { IN; of_mod2sparse_copycols_opt((of_mod2sparse *) m, (of_mod2sparse *) r, cols); OUT; }
void shp_sp_copy_filled(void *m, void *r, uint32_t *ir, uint32_t *ic) { IN; of_mod2sparse_copy_filled_matrix((of_mod2sparse *) m, (of_mod2sparse *) r, ir, ic); OUT; }
int shp_sp_empty_row(void *m, uint32_t r) { return of_mod2sparse_empty_row((of_mod2sparse *) m, r) ? 1 : 0; }
int shp_sp_empty_col(void *m, uint32_t c) { return of_mod2sparse_empty_col((of_mod2sparse *) m, c) ? 1 : 0; }
uint32_t shp_sp_weight_row(void *m, uint32_t r) { return of_mod2sparse_weight_row((of_mod2sparse *) m, r); }

long shp_sp_dump_rows(void *mv, int32_t *out_r, int32_t *out_c, long cap)
{
	of_mod2sparse *m = (of_mod2sparse *) mv;
	long cnt = 0;
	INT32 i;
	of_mod2entry *e;
	for (i = 0; i < of_mod2sparse_rows(m); i++) {
		for (e = of_mod2sparse_first_in_row(m, i); !of_mod2sparse_at_end_row(e); e = of_mod2sparse_next_in_row(e)) {
			if (cnt >= cap) return -1;
			out_r[cnt] = of_mod2sparse_row(e); out_c[cnt] = of_mod2sparse_col(e);
			cnt++;
		}
		if (e != &m->rows[i]) return -1;	/* the traversal must end on this row's header */
	}
	return cnt;
}
long shp_sp_dump_cols(void *mv, int32_t *out_r, int32_t *out_c, long cap)
{
	of_mod2sparse *m = (of_mod2sparse *) mv;
	long cnt = 0;
	INT32 j;
	of_mod2entry *e;
	for (j = 0; j < of_mod2sparse_cols(m); j++) {
		for (e = of_mod2sparse_first_in_col(m, j); !of_mod2sparse_at_end_col(e); e = of_mod2sparse_next_in_col(e)) {
			if (cnt >= cap) return -1;
			out_r[cnt] = of_mod2sparse_row(e); out_c[cnt] = of_mod2sparse_col(e);
			cnt++;
		}
		if (e != &m->cols[j]) return -1;
	}
	return cnt;
}
int shp_sp_links_ok(void *mv, long cap)
{
	of_mod2sparse *m = (of_mod2sparse *) mv;
	INT32 i, j;
	long cnt = 0;
	of_mod2entry *e;
	for (i = 0; i < of_mod2sparse_rows(m); i++) {
		e = &m->rows[i];
		do {
			if (e->right->left != e || e->left->right != e) return 0;
			e = e->right;
			if (++cnt > cap) return 0;
		} while (e != &m->rows[i]);
	}
#ifndef SPARSE_MATRIX_OPT_FOR_LDPC_STAIRCASE
	for (j = 0; j < of_mod2sparse_cols(m); j++) {
		e = &m->cols[j];
		do {
			if (e->down->up != e || e->up->down != e) return 0;
			e = e->down;
			if (++cnt > 2 * cap) return 0;
		} while (e != &m->cols[j]);
	}
#else
	(void) j;
#endif
	return 1;
}
void shp_sp_to_dense(void *m, void *d) { IN; of_mod2sparse_to_dense((of_mod2sparse *) m, (of_mod2dense *) d); OUT; }
void shp_dense_to_sp(void *d, void *m) { IN; of_mod2dense_to_sparse((of_mod2dense *) d, (of_mod2sparse *) m); OUT; }

void *shp_dn_alloc(uint32_t rows, uint32_t cols) { void *d; IN; d = of_mod2dense_allocate(rows, cols); OUT; return d; }
void shp_dn_free(void *d) { IN; of_mod2dense_free((of_mod2dense *) d); OUT; }
void shp_dn_clear(void *d) { of_mod2dense_clear((of_mod2dense *) d); }
uint32_t shp_dn_get(void *d, uint32_t r, uint32_t c) { return of_mod2dense_get((of_mod2dense *) d, r, c); }
int shp_dn_set(void *d, uint32_t r, uint32_t c, uint32_t v) { return of_mod2dense_set((of_mod2dense *) d, r, c, v); }
uint32_t shp_dn_flip(void *d, uint32_t r, uint32_t c) { return of_mod2dense_flip((of_mod2dense *) d, r, c); }
void shp_dn_copy(void *m, void *r) { of_mod2dense_copy((of_mod2dense *) m, (of_mod2dense *) r); }
void shp_dn_copyrows(void *m, void *r, uint32_t *rows) { of_mod2dense_copyrows((of_mod2dense *) m, (of_mod2dense *) r, rows); }
void shp_dn_copycols(void *m, void *r, uint32_t *cols) { of_mod2dense_copycols((of_mod2dense *) m, (of_mod2dense *) r, cols); }
void shp_dn_xor_rows(void *d, uint32_t from, uint32_t to) { of_mod2dense_xor_rows((of_mod2dense *) d, (UINT16) from, (UINT16) to); }
uint32_t shp_dn_row_weight(void *d, uint32_t r) { return of_mod2dense_row_weight((of_mod2dense *) d, r); }
uint32_t shp_dn_col_weight(void *d, uint32_t c) { return of_mod2dense_col_weight((of_mod2dense *) d, c); }
int shp_dn_row_is_empty(void *d, uint32_t r) { return of_mod2dense_row_is_empty((of_mod2dense *) d, r) ? 1 : 0; }
uint32_t shp_dn_row_weight_ignore_first(void *d, uint32_t r, uint32_t nb) { return of_mod2dense_row_weight_ignore_first((of_mod2dense *) d, r, nb); }
uint32_t shp_dn_rows(void *d) { return of_mod2dense_rows((of_mod2dense *) d); }
uint32_t shp_dn_cols(void *d) { return of_mod2dense_cols((of_mod2dense *) d); }
int shp_popcount3(uint64_t x) { return of_popcount_3(x); }
uint32_t shp_hweight32(uint32_t w) { return of_hweight32(w); }
uint32_t shp_hweight32_naive(uint32_t w) { return of_hweight32_naive(w); }
uint32_t shp_hweight32_table(uint32_t w) { return of_hweight32_table(w); }
uint32_t shp_hweight8_table(uint8_t w) { return of_hweight8_table(w); }
uint32_t shp_hweight_array(uint32_t *a, int32_t size_bits) { return of_hweight_array(a, size_bits); }

/* same solver on ONE control block kept across calls (its scratch fields are the solver's own business) */
int shp_solve_reuse(void *d, void **const_tab, void **var_tab, uint32_t L)
{
#ifdef ML_DECODING
	static of_linear_binary_code_cb_t cb;
	static int init = 0;
	static size_t cap = 0;
	of_mod2dense *m = (of_mod2dense *) d;
	int st;
	size_t need = (size_t) of_mod2dense_cols(m) + of_mod2dense_rows(m) + 1;
	if (!init) {
		memset(&cb, 0, sizeof(cb));
#ifdef OF_DEBUG
		cb.stats_xor = (of_symbol_stats_op_t *) calloc(1, sizeof(of_symbol_stats_op_t));
#endif
		init = 1;
	}
	if (need > cap) {	/* as the decoders size it: one slot per symbol of the system; grown, never shrunk */
		free(cb.tmp_tab_symbols);
		cap = need > 4096 ? need : 4096;
		cb.tmp_tab_symbols = (void **) malloc(sizeof(void *) * cap);
	}
	cb.encoding_symbol_length = L;
	cb.nb_source_symbols = of_mod2dense_cols(m);
	cb.nb_repair_symbols = of_mod2dense_rows(m);
	cb.nb_total_symbols = cb.nb_source_symbols + cb.nb_repair_symbols;
	IN;
	st = (int) of_linear_binary_code_solve_dense_system(&cb, m, const_tab, var_tab);
	OUT;
	return st;
#else
	return 3;
#endif
}

int shp_solve(void *d, void **const_tab, void **var_tab, uint32_t L)
{
#ifdef ML_DECODING
	of_linear_binary_code_cb_t cb;
	of_mod2dense *m = (of_mod2dense *) d;
	int st;
	memset(&cb, 0, sizeof(cb));
	cb.encoding_symbol_length = L;
	cb.nb_source_symbols = of_mod2dense_cols(m);
	cb.nb_repair_symbols = of_mod2dense_rows(m);
	cb.nb_total_symbols = cb.nb_source_symbols + cb.nb_repair_symbols;
	cb.tmp_tab_symbols = (void **) malloc(sizeof(void *) * (cb.nb_total_symbols + 1));
#ifdef OF_DEBUG
	cb.stats_xor = (of_symbol_stats_op_t *) calloc(1, sizeof(of_symbol_stats_op_t));
#endif
	IN;
	st = (int) of_linear_binary_code_solve_dense_system(&cb, m, const_tab, var_tab);
	OUT;
	free(cb.tmp_tab_symbols);
#ifdef OF_DEBUG
	free(cb.stats_xor);
#endif
	return st;
#else
	return 3;
#endif
}
#endif
