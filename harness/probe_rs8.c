#ifdef PROBE_STUB
#include "shim.h"
int shp_rs8_available(void) { return 0; }
void shp_rs8_addmul1(uint8_t *d, uint8_t *s, uint8_t c, int sz) { (void)d; (void)s; (void)c; (void)sz; }
int shp_rs8_table(int which, const void **p, size_t *es, size_t *cnt, size_t *stride) { (void)which; (void)p; (void)es; (void)cnt; (void)stride; return 0; }
void shp_rs8_reinit(void) { }
#else
/* private copy of the translation unit: its globals are made local by the build (objcopy -G 'shp_*') */
#include "lib_stable/reed-solomon_gf_2_8/of_reed-solomon_gf_2_8.c"
#include "shim.h"
int shp_rs8_available(void) { return 1; }
void shp_rs8_addmul1(uint8_t *d, uint8_t *s, uint8_t c, int sz)
{
	static int first = 1;
	if (first) { first = 0; of_rs_init(); }
	of_addmul1(d, s, c, sz);
}
void shp_rs8_reinit(void) { of_rs_init(); }
int shp_rs8_table(int which, const void **p, size_t *es, size_t *cnt, size_t *stride)
{
	static int first = 1;
	if (first) { first = 0; of_rs_init(); }	/* generated at first use */
	*stride = 0;
	switch (which) {
	case 0: *p = of_rs_gf_exp; *es = sizeof(of_rs_gf_exp[0]); *cnt = sizeof(of_rs_gf_exp) / sizeof(of_rs_gf_exp[0]); return 1;
	case 1: *p = of_rs_gf_log; *es = sizeof(of_rs_gf_log[0]); *cnt = sizeof(of_rs_gf_log) / sizeof(of_rs_gf_log[0]); return 1;
	case 2: *p = of_rs_inverse; *es = sizeof(of_rs_inverse[0]); *cnt = sizeof(of_rs_inverse) / sizeof(of_rs_inverse[0]); return 1;
	case 3: *p = of_gf_mul_table; *es = sizeof(of_gf_mul_table[0][0]); *cnt = sizeof(of_gf_mul_table) / sizeof(of_gf_mul_table[0][0]);
		*stride = sizeof(of_gf_mul_table[0]) / sizeof(of_gf_mul_table[0][0]); return 1;
	}
	return 0;
}
#endif
