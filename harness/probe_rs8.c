#ifdef PROBE_STUB
#include "shim.h"
int shp_rs8_available(void) { return 0; }
void shp_rs8_addmul1(uint8_t *d, uint8_t *s, uint8_t c, int sz) { (void)d; (void)s; (void)c; (void)sz; }
int shp_rs8_table(int which, const void **p, size_t *es, size_t *cnt, size_t *stride) { (void)which; (void)p; (void)es; (void)cnt; (void)stride; return 0; }
void shp_rs8_reinit(void) { }
void shp_set_verbosity(uint32_t v) { (void)v; }
int shp_rs8_use(int flavour, uint64_t start, uint64_t count) { (void)flavour; (void)start; (void)count; return 0; }
#else
/* private copy of the translation unit: its globals are made local by the build (objcopy -G 'shp_*') */
#include "lib_stable/reed-solomon_gf_2_8/of_reed-solomon_gf_2_8.c"
#include "shim.h"
int shp_rs8_available(void) { return 1; }
void shp_rs8_addmul1(uint8_t *d, uint8_t *s, uint8_t c, int sz)
{
	static int first = 1;
	if (first) { first = 0; of_rs_init(); }
	of_addmul1(d, s, c, sz);
}
void shp_rs8_reinit(void) { of_rs_init(); }
void shp_set_verbosity(uint32_t v) { of_verbosity = v; }	/* the process-wide setting every of_create_codec_instance() overwrites */
/* ordinary use of the codec kernel: `count` codec contexts created and freed, numbered from `start`;
 * flavour 1 = create/free only, 2 = + one repair symbol encoded, 3 = + one erasure decoded. Returns the number of
 * calls that reported an error (none is expected). */
int shp_rs8_use(int flavour, uint64_t start, uint64_t count)
{
	static gf bufs[8][8];
	static gf rep[8];
	uint64_t i;
	int bad = 0, j;
	for (i = start; i < start + count; i++) {
		UINT32 k = 1 + (UINT32) (i % 5), n = k + 1 + (UINT32) ((i / 5) % 3);
		void *code = of_rs_new(k, n);
		if (code == NULL) { bad++; continue; }
		if (flavour >= 2) {
			void *src[8];
			for (j = 0; j < (int) k; j++) { memset(bufs[j], (int) (i + j) | 1, 8); src[j] = bufs[j]; }
			if (of_rs_encode(code, src, rep, (int) k, 8) != OF_STATUS_OK) bad++;
			if (flavour >= 3) {
				/* source 0 lost, first repair received in its place */
				void *pkt[8]; int index[8];
				gf lost[8];
				memcpy(lost, bufs[0], 8);
				memcpy(bufs[0], rep, 8);
				for (j = 0; j < (int) k; j++) { pkt[j] = bufs[j]; index[j] = j; }
				index[0] = (int) k;
				if (of_rs_decode(code, pkt, index, 8) != OF_STATUS_OK) bad++;
				else if (memcmp(pkt[0], lost, 8) != 0) bad++;
			}
		}
		of_rs_free(code);
	}
	return bad;
}
int shp_rs8_table(int which, const void **p, size_t *es, size_t *cnt, size_t *stride)
{
	static int first = 1;
	if (first) { first = 0; of_rs_init(); }	/* generated at first use */
	*stride = 0;
	switch (which) {
	case 0: *p = of_rs_gf_exp; *es = sizeof(of_rs_gf_exp[0]); *cnt = sizeof(of_rs_gf_exp) / sizeof(of_rs_gf_exp[0]); return 1;
	case 1: *p = of_rs_gf_log; *es = sizeof(of_rs_gf_log[0]); *cnt = sizeof(of_rs_gf_log) / sizeof(of_rs_gf_log[0]); return 1;
	case 2: *p = of_rs_inverse; *es = sizeof(of_rs_inverse[0]); *cnt = sizeof(of_rs_inverse) / sizeof(of_rs_inverse[0]); return 1;
	case 3: *p = of_gf_mul_table; *es = sizeof(of_gf_mul_table[0][0]); *cnt = sizeof(of_gf_mul_table) / sizeof(of_gf_mul_table[0][0]);
		*stride = sizeof(of_gf_mul_table[0]) / sizeof(of_gf_mul_table[0][0]); return 1;
	}
	return 0;
}
#endif
