#ifdef PROBE_STUB
#include "shim.h"
int shp_ldpc_available(void) { return 0; }
long shp_session_pchk(void *ses, uint32_t *a, uint32_t *b, long cap) { (void)ses; (void)a; (void)b; (void)cap; return -1; }
long shp_ldpc_constructor(uint32_t k, uint32_t r, uint32_t N1, uint32_t seed, uint32_t *a, uint32_t *b, long cap, int *extra)
{ (void)k; (void)r; (void)N1; (void)seed; (void)a; (void)b; (void)cap; (void)extra; return -1; }
#else
/* Optional white-box probe: the parity-check matrix held by a session, and the exported RFC 5170
 * constructor. If a refactoring breaks this TU the build marks the probe unavailable and the
 * checks run black-box only. */
#include "lib_common/of_openfec_api.h"
#include "lib_common/linear_binary_codes_utils/of_linear_binary_code.h"
#ifdef OF_USE_LDPC_STAIRCASE_CODEC
#include "lib_stable/ldpc_staircase/of_ldpc_includes.h"
#endif
#include "shim.h"
#include <string.h>

int shp_ldpc_available(void) { return 1; }

static long dump(of_mod2sparse *m, UINT32 k, UINT32 r, uint32_t *out_rows, uint32_t *out_esis, long cap)
{
	long cnt = 0;
	INT32 row;
	of_mod2entry *e;
	struct { UINT32 nb_source_symbols, nb_repair_symbols; } dims = { k, r };
	for (row = 0; row < of_mod2sparse_rows(m); row++) {
		for (e = of_mod2sparse_first_in_row(m, row); !of_mod2sparse_at_end(e); e = of_mod2sparse_next_in_row(e)) {
			if (out_rows && cnt < cap) {
				out_rows[cnt] = (uint32_t) row;
				out_esis[cnt] = (uint32_t) of_get_symbol_esi(&dims, of_mod2sparse_col(e));
			}
			cnt++;
		}
	}
	return cnt;
}

long shp_session_pchk(void *ses, uint32_t *out_rows, uint32_t *out_esis, long cap)
{
	of_linear_binary_code_cb_t *cb = (of_linear_binary_code_cb_t *) ses;
	if (cb == NULL || cb->pchk_matrix == NULL)
		return -1;
	if (cb->codec_id != OF_CODEC_LDPC_STAIRCASE_STABLE && cb->codec_id != OF_CODEC_2D_PARITY_MATRIX_STABLE)
		return -1;
	return dump(cb->pchk_matrix, cb->nb_source_symbols, cb->nb_repair_symbols, out_rows, out_esis, cap);
}

long shp_ldpc_constructor(uint32_t k, uint32_t r, uint32_t N1, uint32_t seed, uint32_t *out_rows,
			  uint32_t *out_esis, long cap, int *extra)
{
#ifdef OF_USE_LDPC_STAIRCASE_CODEC
	of_ldpc_staircase_cb_t cb;
	of_mod2sparse *m;
	long cnt;
	memset(&cb, 0, sizeof(cb));
	if (!sh_in_library) sh_call_ticks = 0;
	sh_in_library++;
	m = of_create_pchck_matrix_rfc5170_compliant(r, k + r, N1, seed, &cb);
	sh_in_library--;
	if (m == NULL)
		return -1;
	cnt = dump(m, k, r, out_rows, out_esis, cap);
	*extra = cb.extra_entries_added_in_pchk ? 1 : 0;
	if (!sh_in_library) sh_call_ticks = 0;
	sh_in_library++;
	of_mod2sparse_free(m);
	of_free(m);
	sh_in_library--;
	return cnt;
#else
	return -1;
#endif
}
#endif /* PROBE_STUB */
