// Reference systematic Reed-Solomon generator: Vandermonde matrix on the points
// 0, 1, a, a^2, ... of GF(2^m) (row i = (x_i^0, x_i^1, ..., x_i^(k-1)), x_0 = 0 so row 0 is
// (1,0,...,0)), made systematic by multiplying with the inverse of its top k x k block.
#pragma once
#include "gf.hpp"
#include <map>
#include <memory>
#include <vector>
#include <utility>

namespace ref {

struct RSGen {
  int m; unsigned k;
  std::vector<std::vector<uint8_t>> vinv;  // k x k inverse of the top block
  std::map<unsigned, std::vector<uint8_t>> rows;  // esi -> generator row (lazy)

  static uint8_t point(const GF& f, unsigned i) { return i == 0 ? 0 : f.pow_x(i - 1); }
  static std::vector<uint8_t> vrow(const GF& f, unsigned i, unsigned k) {
    std::vector<uint8_t> r(k);
    uint8_t x = point(f, i), p = 1;
    for (unsigned j = 0; j < k; j++) { r[j] = p; p = f.mul(p, x); }
    return r;
  }
  RSGen(int m_, unsigned k_) : m(m_), k(k_) {
    const GF& f = gf(m);
    std::vector<std::vector<uint8_t>> a(k), b(k, std::vector<uint8_t>(k, 0));
    for (unsigned i = 0; i < k; i++) { a[i] = vrow(f, i, k); b[i][i] = 1; }
    // Gauss-Jordan
    for (unsigned c = 0; c < k; c++) {
      unsigned p = c;
      while (p < k && a[p][c] == 0) p++;
      assert(p < k);  // Vandermonde on distinct points is invertible
      std::swap(a[p], a[c]); std::swap(b[p], b[c]);
      uint8_t iv = f.inv(a[c][c]);
      for (unsigned j = 0; j < k; j++) { a[c][j] = f.mul(a[c][j], iv); b[c][j] = f.mul(b[c][j], iv); }
      for (unsigned r = 0; r < k; r++) {
        if (r == c || a[r][c] == 0) continue;
        uint8_t fct = a[r][c];
        for (unsigned j = 0; j < k; j++) { a[r][j] ^= f.mul(fct, a[c][j]); b[r][j] ^= f.mul(fct, b[c][j]); }
      }
    }
    vinv = b;
  }
  const std::vector<uint8_t>& row(unsigned esi) {
    auto it = rows.find(esi);
    if (it != rows.end()) return it->second;
    const GF& f = gf(m);
    std::vector<uint8_t> g(k, 0);
    if (esi < k) g[esi] = 1;
    else {
      std::vector<uint8_t> v = vrow(f, esi, k);
      for (unsigned j = 0; j < k; j++) {
        uint8_t s = 0;
        for (unsigned i = 0; i < k; i++) s ^= f.mul(v[i], vinv[i][j]);
        g[j] = s;
      }
    }
    return rows.emplace(esi, g).first->second;
  }
};

inline RSGen& rsgen(int m, unsigned k) {
  static std::map<std::pair<int, unsigned>, std::unique_ptr<RSGen>> cache;
  auto key = std::make_pair(m, k);
  auto it = cache.find(key);
  if (it == cache.end()) it = cache.emplace(key, std::unique_ptr<RSGen>(new RSGen(m, k))).first;
  return *it->second;
}

// Encode symbol `esi` of the block whose k source symbols are src[0..k-1], each L bytes.
// m = 8: one field element per byte. m = 4: two elements per byte, each nibble independently.
inline std::vector<uint8_t> rs_encode(int m, unsigned k, const std::vector<std::vector<uint8_t>>& src,
                                      unsigned esi, unsigned L) {
  const GF& f = gf(m);
  const std::vector<uint8_t>& g = rsgen(m, k).row(esi);
  std::vector<uint8_t> out(L, 0);
  for (unsigned j = 0; j < k; j++) {
    uint8_t c = g[j];
    if (!c) continue;
    const std::vector<uint8_t>& s = src[j];
    if (m == 8) {
      for (unsigned b = 0; b < L; b++) out[b] ^= f.mul(c, s[b]);
    } else {
      for (unsigned b = 0; b < L; b++)
        out[b] ^= (uint8_t)((f.mul(c, s[b] >> 4) << 4) | f.mul(c, s[b] & 15));
    }
  }
  return out;
}

}  // namespace ref
