// Exact GF(2) oracles over a parity-check code given as a list of equations (each a list of
// symbol indices): peeling closure as a fixed point on sets, and determinability of each unknown
// by Gauss-Jordan elimination on bit rows.
#pragma once
#include <cstdint>
#include <vector>
#include <algorithm>

namespace ref {

typedef std::vector<std::vector<uint32_t>> Equations;

// known[] in/out: closure under "an equation with exactly one unknown symbol determines it".
// Returns for every newly known symbol the length of the derivation chain (1 = directly from
// received symbols) in chain[] (0 for initially known / never known).
inline void peel_closure(const Equations& eq, std::vector<char>& known, std::vector<int>* chain = nullptr) {
  size_t n = known.size();
  std::vector<int> ch(n, 0);
  bool progress = true;
  while (progress) {
    progress = false;
    for (const auto& row : eq) {
      int unk = 0; uint32_t last = 0; int depth = 0;
      for (uint32_t s : row) {
        if (!known[s]) { unk++; last = s; if (unk > 1) break; }
        else depth = std::max(depth, ch[s]);
      }
      if (unk == 1) { known[last] = 1; ch[last] = depth + 1; progress = true; }
    }
  }
  if (chain) *chain = ch;
}

struct Determined {
  std::vector<char> det;   // per symbol: value uniquely determined by equations + known symbols
  uint32_t rank = 0;       // rank of H restricted to unknown columns
  uint32_t unknowns = 0;   // number of unknown columns
};

inline Determined determinability(const Equations& eq, const std::vector<char>& known) {
  size_t n = known.size();
  Determined d; d.det.assign(n, 0);
  std::vector<int> colidx(n, -1);
  std::vector<uint32_t> cols;
  for (size_t s = 0; s < n; s++) {
    if (known[s]) d.det[s] = 1;
    else { colidx[s] = (int)cols.size(); cols.push_back((uint32_t)s); }
  }
  size_t U = cols.size(); d.unknowns = (uint32_t)U;
  if (U == 0) return d;
  size_t W = (U + 63) / 64;
  std::vector<std::vector<uint64_t>> rows;
  for (const auto& row : eq) {
    std::vector<uint64_t> bits(W, 0); bool any = false;
    for (uint32_t s : row) if (colidx[s] >= 0) { bits[colidx[s] >> 6] ^= 1ULL << (colidx[s] & 63); any = true; }
    if (any) rows.push_back(bits);
  }
  // Gauss-Jordan (reduced row echelon form)
  std::vector<int> pivot_row_of_col(U, -1);
  size_t rnk = 0;
  for (size_t c = 0; c < U && rnk < rows.size(); c++) {
    size_t p = rnk;
    while (p < rows.size() && !((rows[p][c >> 6] >> (c & 63)) & 1)) p++;
    if (p == rows.size()) continue;
    std::swap(rows[p], rows[rnk]);
    for (size_t q = 0; q < rows.size(); q++) {
      if (q != rnk && ((rows[q][c >> 6] >> (c & 63)) & 1))
        for (size_t w = 0; w < W; w++) rows[q][w] ^= rows[rnk][w];
    }
    pivot_row_of_col[c] = (int)rnk;
    rnk++;
  }
  d.rank = (uint32_t)rnk;
  for (size_t c = 0; c < U; c++) {
    int pr = pivot_row_of_col[c];
    if (pr < 0) continue;
    // determined iff the pivot row has no other entry (all other pivot columns were cleared,
    // so any other entry is a free column)
    int pop = 0;
    for (size_t w = 0; w < W; w++) pop += __builtin_popcountll(rows[pr][w]);
    if (pop == 1) d.det[cols[c]] = 1;
  }
  return d;
}

}  // namespace ref
