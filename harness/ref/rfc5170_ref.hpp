// Reference LDPC-Staircase code construction, transcribed from RFC 5170 (section 5.2
// left_matrix_init, section 5.7 pmms_rand) on plain sets. Rows are equations, columns are ESIs
// (sources 0..k-1, repairs k..n-1). Nothing here calls into or is copied from the library.
#pragma once
#include <cstdint>
#include <set>
#include <vector>
#include <algorithm>

namespace ref {

struct Pmms {
  uint64_t s;
  explicit Pmms(uint64_t seed) : s(seed) {}
  // Park-Miller minimal standard, exact 64-bit integer arithmetic.
  uint64_t next_state() { s = (16807ULL * s) % 0x7FFFFFFFULL; return s; }
  // RFC 5170 scaling expression.
  uint64_t rand(uint64_t maxv) {
    next_state();
    return (uint64_t)((double)s * (double)maxv / (double)0x7FFFFFFF);
  }
};

struct LdpcCode {
  uint32_t k = 0, r = 0, n = 0, N1 = 0, seed = 0;
  std::vector<std::vector<uint32_t>> row_src;  // sorted source ESIs of every equation
  bool extra_added = false;                    // "extra bits" branch fired
  bool uneven = false;                         // "no choice left" branch fired
  std::vector<uint32_t> src_col_weight;        // number of equations each source is in

  // full list of ESIs in equation i (sources, repair k+i, repair k+i-1)
  std::vector<uint32_t> row_all(uint32_t i) const {
    std::vector<uint32_t> v = row_src[i];
    if (i > 0) v.push_back(k + i - 1);
    v.push_back(k + i);
    return v;
  }
};

inline LdpcCode ldpc_build(uint32_t k, uint32_t r, uint32_t N1, uint32_t seed) {
  LdpcCode c; c.k = k; c.r = r; c.n = k + r; c.N1 = N1; c.seed = seed;
  std::vector<std::set<uint32_t>> rows(r);
  Pmms prng(seed);
  const int64_t tot = (int64_t)N1 * k;
  std::vector<uint32_t> u((size_t)tot);
  for (int64_t h = tot - 1; h >= 0; h--) u[(size_t)h] = (uint32_t)(h % r);
  int64_t t = 0;
  for (uint32_t j = 0; j < k; j++) {
    for (uint32_t h = 0; h < N1; h++) {
      int64_t i;
      for (i = t; i < tot && rows[u[(size_t)i]].count(j); i++) {}
      if (i < tot) {
        do { i = t + (int64_t)prng.rand((uint64_t)(tot - t)); } while (rows[u[(size_t)i]].count(j));
        rows[u[(size_t)i]].insert(j);
        u[(size_t)i] = u[(size_t)t];
        t++;
      } else {
        c.uneven = true;
        do { i = (int64_t)prng.rand(r); } while (rows[(size_t)i].count(j));
        rows[(size_t)i].insert(j);
      }
    }
  }
  for (uint32_t i = 0; i < r; i++) {
    if (rows[i].empty()) {
      uint32_t j = (uint32_t)prng.rand(k);
      rows[i].insert(j);
      c.extra_added = true;
    }
    // Documented deviation: for k == 1 the RFC's loop below cannot terminate (the only column is
    // already taken); any terminating implementation must skip it.
    if (rows[i].size() == 1 && k > 1) {
      uint32_t j;
      do { j = (uint32_t)prng.rand(k); } while (rows[i].count(j));
      rows[i].insert(j);
      c.extra_added = true;
    }
  }
  c.row_src.resize(r);
  c.src_col_weight.assign(k, 0);
  for (uint32_t i = 0; i < r; i++) {
    c.row_src[i].assign(rows[i].begin(), rows[i].end());
    for (uint32_t j : c.row_src[i]) c.src_col_weight[j]++;
  }
  return c;
}

// Encode: p_0 = sum of sources of row 0, p_i = p_{i-1} + sum of sources of row i.
inline std::vector<std::vector<uint8_t>> ldpc_encode(const LdpcCode& c,
                                                     const std::vector<std::vector<uint8_t>>& src, uint32_t L) {
  std::vector<std::vector<uint8_t>> rep(c.r, std::vector<uint8_t>(L, 0));
  for (uint32_t i = 0; i < c.r; i++) {
    std::vector<uint8_t>& p = rep[i];
    if (i > 0) p = rep[i - 1];
    for (uint32_t j : c.row_src[i])
      for (uint32_t b = 0; b < L; b++) p[b] ^= src[j][b];
  }
  return rep;
}

}  // namespace ref
