// Reference GF(2^m) arithmetic (m = 4, 8), written from the field definitions only.
// GF(2^4) = GF(2)[x]/(x^4+x+1), GF(2^8) = GF(2)[x]/(x^8+x^4+x^3+x^2+1), generator x.
// No table here is copied from the repository; every table is built at start-up from
// shift-and-reduce multiplication.
#pragma once
#include <cstdint>
#include <vector>
#include <cassert>

namespace ref {

struct GF {
  int m;            // 4 or 8
  unsigned poly;    // reduction polynomial including the x^m term
  unsigned q;       // 2^m
  std::vector<uint8_t> mul_;  // q*q
  std::vector<uint8_t> inv_;  // q (inv_[0] unused)
  std::vector<int> log_;      // q (log_[0] = -1)
  std::vector<uint8_t> exp_;  // 2*(q-1)

  static unsigned slow_mul(unsigned a, unsigned b, int m, unsigned poly) {
    unsigned r = 0;
    while (b) {
      if (b & 1) r ^= a;
      b >>= 1;
      a <<= 1;
      if (a & (1u << m)) a ^= poly;
    }
    return r;
  }
  explicit GF(int m_) : m(m_) {
    assert(m == 4 || m == 8);
    poly = (m == 4) ? 0x13u : 0x11du;
    q = 1u << m;
    mul_.assign(q * q, 0);
    for (unsigned a = 0; a < q; a++)
      for (unsigned b = 0; b < q; b++) mul_[a * q + b] = (uint8_t)slow_mul(a, b, m, poly);
    inv_.assign(q, 0);
    for (unsigned a = 1; a < q; a++)
      for (unsigned b = 1; b < q; b++)
        if (mul_[a * q + b] == 1) { inv_[a] = (uint8_t)b; break; }
    log_.assign(q, -1);
    exp_.assign(2 * (q - 1), 0);
    unsigned p = 1;
    for (unsigned i = 0; i < q - 1; i++) {
      exp_[i] = (uint8_t)p; exp_[i + q - 1] = (uint8_t)p;
      log_[p] = (int)i;
      p = slow_mul(p, 2, m, poly);
    }
    assert(p == 1);  // x is primitive
  }
  inline uint8_t mul(unsigned a, unsigned b) const { return mul_[a * q + b]; }
  inline uint8_t inv(unsigned a) const { assert(a); return inv_[a]; }
  inline uint8_t pow_x(unsigned e) const { return exp_[e % (q - 1)]; }
  uint8_t pow(unsigned a, unsigned e) const {
    uint8_t r = 1;
    for (unsigned i = 0; i < e; i++) r = mul(r, a);
    return r;
  }
};

inline const GF& gf4() { static GF g(4); return g; }
inline const GF& gf8() { static GF g(8); return g; }
inline const GF& gf(int m) { return m == 4 ? gf4() : gf8(); }

}  // namespace ref
