#ifdef PROBE_STUB
#include "shim.h"
int shp_rand_available(void) { return 0; }
void shp_srand(uint64_t s) { (void)s; }
uint64_t shp_rand(uint64_t m) { (void)m; return 0; }
int shp_seed_get(uint64_t *s) { (void)s; return 0; }
int shp_seed_set(uint64_t s) { (void)s; return 0; }
#else
#include "lib_common/of_openfec_api.h"
#include "lib_common/of_rand.h"
#include "shim.h"
extern UINT64 of_seed;
int shp_rand_available(void) { return 1; }
void shp_srand(uint64_t s) { of_rfc5170_srand(s); }
uint64_t shp_rand(uint64_t m) { return of_rfc5170_rand(m); }
int shp_seed_get(uint64_t *s) { *s = of_seed; return 1; }
int shp_seed_set(uint64_t s) { of_seed = s; return 1; }
#endif
