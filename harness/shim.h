/* C glue between the C++ harness and the library. Compiled as C with the repository's own
 * headers (C `bool` is UINT32 there, C++ `bool` is one byte: no repo header may be included from
 * C++). Only plain ints / uint32_t / void* cross this boundary. */
#ifndef VERIF_SHIM_H
#define VERIF_SHIM_H
#include <stdint.h>
#include <stddef.h>
#ifdef __cplusplus
extern "C" {
#endif

/* set while a library API function is executing (allocation accounting) */
extern volatile int sh_in_library;
extern volatile int sh_call_ticks;   /* reset when an outermost API call starts; counted by the engines' CPU watchdog */

/* codec ids as in of_codec_id_t */
enum { SH_RS8 = 1, SH_RSM = 2, SH_LDPC = 3, SH_P2D = 5 };
enum { SH_ENC = 1, SH_DEC = 2, SH_BOTH = 3 };

typedef void *(*sh_cb_t)(void *ctx, uint32_t size, uint32_t esi);

int sh_create(void **ses, int codec_id, int role);
int sh_create_v(void **ses, int codec_id, int role, uint32_t verbosity);
int sh_set_ctrl_field_size(void *ses, uint32_t m);   /* of_set_control_parameter(OF_RS_CTRL_SET_FIELD_SIZE, UINT16 m) */
int sh_release(void *ses);
/* m used by RSM only, N1/seed by LDPC only */
int sh_set_params(void *ses, int codec_id, uint32_t k, uint32_t r, uint32_t L, uint32_t m, uint32_t N1,
                  uint32_t seed);
int sh_set_params_null(void *ses);
int sh_set_cb(void *ses, sh_cb_t src_cb, sh_cb_t rep_cb, void *ctx);
int sh_build(void *ses, void **tab, uint32_t esi);
int sh_decode_new(void *ses, void *buf, uint32_t esi);
int sh_set_avail(void *ses, void **tab);
int sh_finish(void *ses);
int sh_is_complete(void *ses);
int sh_get_src_tab(void *ses, void **tab);
int sh_get_ctrl_u32(void *ses, uint32_t type, uint32_t *val); /* 1 = MAX_K, 2 = MAX_N */
int sh_get_last_null(void *ses, int *val);                    /* LDPC only */
int sh_more_about(void *ses);

/* ---- optional white-box probes (each in its own TU; availability flags set by the build) ---- */

/* probe_ldpc: parity-check matrix of a configured LDPC/2D session, as (equation, esi) pairs.
 * Returns number of entries, or -1 if the session has no matrix. out may be NULL to count. */
long shp_session_pchk(void *ses, uint32_t *out_rows, uint32_t *out_esis, long cap);
/* exported constructor, traversed entry by entry; returns entries or -1; *extra = flag set by it */
long shp_ldpc_constructor(uint32_t k, uint32_t r, uint32_t N1, uint32_t seed, uint32_t *out_rows,
                          uint32_t *out_esis, long cap, int *extra);
int shp_ldpc_available(void);

/* probe_kern: symbol kernels (exported library functions) */
int shp_kern_available(void);
void shp_add_to_symbol(void *to, const void *from, uint32_t size);
void shp_add_from_multiple(void *to, const void **from, uint32_t cnt, uint32_t size);
void shp_add_to_multiple(void **to, const void *from, uint32_t cnt, uint32_t size);
void shp_gf28_addmul1(uint8_t *dst, uint8_t *src, uint8_t c, int sz);
void shp_gf24_addmul1(uint8_t *dst, uint8_t *src, uint8_t c, int sz);
void shp_gf24_addmul1_compact(uint8_t *dst, uint8_t *src, uint8_t c, int sz);

/* probe_rs8: private copy of the RS-2^8 translation unit (static kernel and generated tables) */
int shp_rs8_available(void);
void shp_rs8_addmul1(uint8_t *dst, uint8_t *src, uint8_t c, int sz);
/* which: 0 exp (elem 1 byte), 1 log (int), 2 inverse (1 byte), 3 mul_table (1 byte, row stride in *stride) */
int shp_rs8_table(int which, const void **p, size_t *elem_size, size_t *count, size_t *stride);
int shp_rs8_use(int flavour, uint64_t start, uint64_t count);   /* creates/uses/frees codec contexts of the private copy */
void shp_set_verbosity(uint32_t v);   /* sets the library's process-wide of_verbosity (0, 1, 2 are the documented values) */
void shp_rs8_reinit(void);   /* calls the exported of_rs_init() once more (regeneration must be idempotent) */

/* probe_gf: precomputed tables of the GF(2^m) codec.
 * which: 0 gf24 mul (16x16) 1 gf24 opt_mul (16x256) 2 gf24 inv 3 gf24 log 4 gf24 exp
 *        5 gf28 mul (256x256) 6 gf28 inv 7 gf28 log 8 gf28 exp */
int shp_gf_available(void);
int shp_gf_table(int which, const void **p, size_t *elem_size, size_t *count);

/* probe_rand */
int shp_rand_available(void);
void shp_srand(uint64_t s);
uint64_t shp_rand(uint64_t maxv);
int shp_seed_get(uint64_t *s);   /* 0 if the state variable is not reachable */
int shp_seed_set(uint64_t s);

/* probe_blk: eperftool blocking structure */
int shp_blk_available(void);
int shp_blk_compute(uint32_t B, uint32_t L, uint32_t E, uint32_t *out5); /* I, A_large, A_small, nb_blocks, status */

/* probe_mat: sparse / dense GF(2) matrices, conversions, popcounts, dense solver */
int shp_mat_available(void);
void *shp_sp_alloc(uint32_t rows, uint32_t cols);
void shp_sp_free(void *m);                       /* of_mod2sparse_free + of_free of the header */
void shp_sp_clear(void *m);
int shp_sp_insert(void *m, uint32_t r, uint32_t c);   /* 1 if an entry pointer was returned */
int shp_sp_find(void *m, uint32_t r, uint32_t c);
int shp_sp_delete(void *m, uint32_t r, uint32_t c);   /* find + delete; 0 if absent */
long shp_sp_delete_run(void *m, int by_col, uint32_t line, uint32_t skip, uint32_t count, int32_t *out, long cap);   /* deletes through traversal handles, no lookup */
void shp_sp_copy(void *m, void *r);
void shp_sp_copyrows(void *m, void *r, uint32_t *rows);
void shp_sp_copycols(void *m, void *r, uint32_t *cols);
void shp_sp_copyrows_opt(void *m, void *r, uint32_t *rows);
void shp_sp_copycols_opt(void *m, void *r, uint32_t *cols);
void shp_sp_copy_filled(void *m, void *r, uint32_t *index_rows, uint32_t *index_cols);
int shp_sp_empty_row(void *m, uint32_t r);
int shp_sp_empty_col(void *m, uint32_t c);
uint32_t shp_sp_weight_row(void *m, uint32_t r);
/* traversal dumps: entries in row-major (resp. column-major) traversal order as (row, col) pairs;
 * returns count, or -1 if a traversal does not terminate within cap steps / header fields are odd */
long shp_sp_dump_rows(void *m, int32_t *out_r, int32_t *out_c, long cap);
long shp_sp_dump_cols(void *m, int32_t *out_r, int32_t *out_c, long cap);
int shp_sp_links_ok(void *m, long cap);
void shp_sp_to_dense(void *m, void *d);
void shp_dense_to_sp(void *d, void *m);

void *shp_dn_alloc(uint32_t rows, uint32_t cols);
void shp_dn_free(void *d);
void shp_dn_clear(void *d);
uint32_t shp_dn_get(void *d, uint32_t r, uint32_t c);
int shp_dn_set(void *d, uint32_t r, uint32_t c, uint32_t v);
uint32_t shp_dn_flip(void *d, uint32_t r, uint32_t c);
void shp_dn_copy(void *m, void *r);
void shp_dn_copyrows(void *m, void *r, uint32_t *rows);
void shp_dn_copycols(void *m, void *r, uint32_t *cols);
void shp_dn_xor_rows(void *d, uint32_t from, uint32_t to);
uint32_t shp_dn_row_weight(void *d, uint32_t r);
uint32_t shp_dn_col_weight(void *d, uint32_t c);
int shp_dn_row_is_empty(void *d, uint32_t r);
uint32_t shp_dn_row_weight_ignore_first(void *d, uint32_t r, uint32_t nb);
uint32_t shp_dn_rows(void *d);
uint32_t shp_dn_cols(void *d);
int shp_popcount3(uint64_t x);
uint32_t shp_hweight32(uint32_t w);
uint32_t shp_hweight32_naive(uint32_t w);
uint32_t shp_hweight32_table(uint32_t w);
uint32_t shp_hweight8_table(uint8_t w);
uint32_t shp_hweight_array(uint32_t *a, int32_t size_bits);
/* solver: d is consumed (row pointers permuted), const_tab/var_tab as the ML decoder passes them */
int shp_solve(void *d, void **const_tab, void **var_tab, uint32_t L);
int shp_solve_reuse(void *d, void **const_tab, void **var_tab, uint32_t L);   /* one control block kept across calls */

#ifdef __cplusplus
}
#endif
#endif
