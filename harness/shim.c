#include "lib_common/of_openfec_api.h"
#include "shim.h"
#include <string.h>

volatile int sh_in_library = 0;
volatile int sh_call_ticks = 0;	/* CPU seconds (watchdog ticks) spent inside the current outermost API call */

#define ENTER int sh_prev_ = sh_in_library; if (!sh_prev_) sh_call_ticks = 0; sh_in_library = 1
#define LEAVE sh_in_library = sh_prev_

int sh_create(void **ses, int codec_id, int role)
{
	of_session_t *s = NULL;
	ENTER;
	int st = (int) of_create_codec_instance(&s, (of_codec_id_t) codec_id, (of_codec_type_t) role, 0);
	LEAVE;
	*ses = (void *) s;
	return st;
}

int sh_create_v(void **ses, int codec_id, int role, uint32_t verbosity)
{
	of_session_t *s = NULL;
	ENTER;
	int st = (int) of_create_codec_instance(&s, (of_codec_id_t) codec_id, (of_codec_type_t) role, verbosity);
	LEAVE;
	*ses = (void *) s;
	return st;
}

int sh_set_ctrl_field_size(void *ses, uint32_t m)
{
	UINT16 v = (UINT16) m;
	ENTER;
	int st = (int) of_set_control_parameter((of_session_t *) ses, OF_RS_CTRL_SET_FIELD_SIZE, &v, sizeof(v));
	LEAVE;
	return st;
}

int sh_release(void *ses)
{
	ENTER;
	int st = (int) of_release_codec_instance((of_session_t *) ses);
	LEAVE;
	return st;
}

int sh_set_params(void *ses, int codec_id, uint32_t k, uint32_t r, uint32_t L, uint32_t m, uint32_t N1,
		  uint32_t seed)
{
	int st;
	union {
		of_parameters_t g;
#ifdef OF_USE_REED_SOLOMON_CODEC
		of_rs_parameters_t rs;
#endif
#ifdef OF_USE_REED_SOLOMON_2_M_CODEC
		of_rs_2_m_parameters_t rsm;
#endif
#ifdef OF_USE_LDPC_STAIRCASE_CODEC
		of_ldpc_parameters_t ldpc;
#endif
#ifdef OF_USE_2D_PARITY_MATRIX_CODEC
		of_2d_parity_parameters_t p2d;
#endif
	} p;
	memset(&p, 0, sizeof(p));
	p.g.nb_source_symbols = k;
	p.g.nb_repair_symbols = r;
	p.g.encoding_symbol_length = L;
	switch (codec_id) {
#ifdef OF_USE_REED_SOLOMON_2_M_CODEC
	case SH_RSM:
		p.rsm.m = (UINT16) m;
		break;
#endif
#ifdef OF_USE_LDPC_STAIRCASE_CODEC
	case SH_LDPC:
		p.ldpc.prng_seed = (INT32) seed;
		p.ldpc.N1 = (UINT8) N1;
		break;
#endif
	default:
		break;
	}
	{
		ENTER;
		st = (int) of_set_fec_parameters((of_session_t *) ses, &p.g);
		LEAVE;
	}
	return st;
}

int sh_set_params_null(void *ses)
{
	ENTER;
	int st = (int) of_set_fec_parameters((of_session_t *) ses, NULL);
	LEAVE;
	return st;
}

int sh_set_cb(void *ses, sh_cb_t src_cb, sh_cb_t rep_cb, void *ctx)
{
	ENTER;
	int st = (int) of_set_callback_functions((of_session_t *) ses,
			(void *(*)(void *, UINT32, UINT32)) src_cb,
			(void *(*)(void *, UINT32, UINT32)) rep_cb, ctx);
	LEAVE;
	return st;
}

int sh_build(void *ses, void **tab, uint32_t esi)
{
	ENTER;
	int st = (int) of_build_repair_symbol((of_session_t *) ses, tab, esi);
	LEAVE;
	return st;
}

int sh_decode_new(void *ses, void *buf, uint32_t esi)
{
	ENTER;
	int st = (int) of_decode_with_new_symbol((of_session_t *) ses, buf, esi);
	LEAVE;
	return st;
}

int sh_set_avail(void *ses, void **tab)
{
	ENTER;
	int st = (int) of_set_available_symbols((of_session_t *) ses, tab);
	LEAVE;
	return st;
}

int sh_finish(void *ses)
{
	ENTER;
	int st = (int) of_finish_decoding((of_session_t *) ses);
	LEAVE;
	return st;
}

int sh_is_complete(void *ses)
{
	ENTER;
	int st = of_is_decoding_complete((of_session_t *) ses) ? 1 : 0;
	LEAVE;
	return st;
}

int sh_get_src_tab(void *ses, void **tab)
{
	ENTER;
	int st = (int) of_get_source_symbols_tab((of_session_t *) ses, tab);
	LEAVE;
	return st;
}

int sh_get_ctrl_u32(void *ses, uint32_t type, uint32_t *val)
{
	UINT32 v = 0;
	ENTER;
	int st = (int) of_get_control_parameter((of_session_t *) ses, type, &v, sizeof(v));
	LEAVE;
	*val = v;
	return st;
}

int sh_get_last_null(void *ses, int *val)
{
#ifdef OF_USE_LDPC_STAIRCASE_CODEC
	bool b = 0;	/* C bool of the library: 4 bytes */
	ENTER;
	int st = (int) of_get_control_parameter((of_session_t *) ses, OF_CRTL_LDPC_STAIRCASE_IS_LAST_SYMBOL_NULL,
						&b, sizeof(b));
	LEAVE;
	*val = b ? 1 : 0;
	return st;
#else
	*val = 0;
	return 2;
#endif
}

int sh_more_about(void *ses)
{
	char *v = NULL, *c = NULL;
	ENTER;
	int st = (int) of_more_about((of_session_t *) ses, &v, &c);
	LEAVE;
	return st;
}
