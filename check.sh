#!/bin/sh
# check.sh <ID> <quick|thorough>
cd "$(dirname "$0")" || exit 2
exec python3 driver/check.py "$@"
